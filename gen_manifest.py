#!/usr/bin/env python3
"""Regenerates MANIFEST.json from the table below (kept in one place so that it stays valid)."""
import json, subprocess, sys

CHECKS = {
 # id: (level, technique, level text, level note, design_ref)
 "C15": ("exploration", "differential monitor: integer reference formatter + three-way grammar oracle over exhaustive short strings and ranges and seeded random inputs; amount strings of very large coins read back through the API layer (GetUtxo, GetWalletBalance, GetAddressBalance)",
         "every formatted/parsed value of the real api.StringToAmount / AmountToString / masswallet.AmountToString is compared with an independent integer reference; exhaustive over [0,2e6], [max-1e6,max+1e3], 10^k±1 and all strings of length ≤5 (quick) / ≤7 (thorough) over the hostile alphabet, random elsewhere",
         "trusts the 40-line reference (refFormat/c15Classify) and massutil.MaxAmount as the supply limit; strings \"\", \".\", \"1.\", \".5\" treated as unspecified", "§5 C15"),
}

CHECKS["C13"] = ("exploration", "differential monitor: two independent BIP-39 references (Go bit-level codec + own PBKDF2; python hashlib at run time) vs the real keystore functions on seeded entropies and sentence mutants",
  "every NewMnemonic / EntropyFromMnemonic / MnemonicToByteArray / NewSeed(WithErrorChecking) result on the explored entropies (all five sizes, leading-zero and edge classes) and sentence mutants (substitute, swap, drop, add, re-space, pad) is compared with references that share no code with the repo",
  "trusts sha256/hmac/sha512 of the Go standard library and python hashlib, and the harness copy of the English word list (hash-checked)", "§5 C13")

CHECKS["C14"] = ("exploration", "differential monitor: fixed-width BIP-32 reference (cross-checked at run time with a pure-python secp256k1 implementation) vs hdkeychain on seeded paths, targeted leading-zero parents and exhaustive single-character / single-byte corruptions",
  "every key produced by NewMaster/Child/Neuter/String/NewKeyFromString on the explored seeds and paths is compared field by field with a reference sharing no derivation code; the leading-zero-scalar class is constructed in every run (hash search), not left to luck; corruptions of serialised keys are enumerated per position",
  "trusts btcec point arithmetic, x/crypto ripemd160, Go crypto/hmac+sha512; python reference anchored on BIP-32 test vector 1", "§5 C14")
CHECKS["C16"] = ("exploration", "differential monitor: consensus script library (mass-core txscript/massutil) on the same bytes vs utils.ParsePkScript and api.DecodeRawTransaction, under recover(), over templates, mutants and random bytes",
  "every script of the seeded stream (three templates with boundary frozen periods and legal/illegal binding targets, eight mutation kinds, random bytes ≤300 B) is read by the wallet and by the consensus library and all accessors are compared; panics are caught per call",
  "mass-core is the reference and is trusted; staking maturity for frozen period 2^64-1 unspecified", "§5 C16")

CHECKS["C18"] = ("fault_enumeration", "storage-fault enumeration through the database interposer: every storage call index of a recorded scenario - wallet database (begin, get, put, delete, iterator, commit) and the wallet's reads of the node database (blocks, transactions, script-hash index) in one numbering - fails once in its own run; the failed API call is repeated once the background worker is parked with an empty queue (whatever the failed call queued has run), background tasks retry on their own; final observation vs a fault-free twin run and vs the reference ledger",
  "a scenario (import x2, new addresses, 9 blocks incl. 2 reorgs, create, remove with blocks arriving, flush blocks) is recorded once; per step group every call index (quick: all indexes of small steps, a seeded sample with both ends of large ones; thorough: all) is failed once and as a burst of consecutive failures; an attempt of the operation during which storage works must succeed, the NewAddress sequence, wallet list, every API observation of the surviving wallet and the ledger must equal the twin's; no follower goroutine may die",
  "one fault burst per run (1 failing call, or 2/3/6 consecutive failing calls); bucket lookups have no error return and are not faulted; rolled-back transactions are always resolved on the new branch (a block the wallet skipped and the chain abandoned is not a lost block)", "§5 C18")

CHECKS["C20"] = ("exploration", "schedule control at 11 yield points of follower and worker (build tag verif): every (point, occurrence) of four scenarios is used once as the place where a goroutine is parked while Stop is issued (released after quit is closed / 3 ms later) or while all blocks are queued (progress variant); goroutine-dump deadlock classifier, in-process database re-open, restart convergence; random stops with delays and GOMAXPROCS 1/2/4/16, a sixth under the Go race detector; runs in which the LevelDB store under the running wallet goes read-only (real failing commits), then Stop and restart",
  "Stop must return for every enumerated placement and random stop; a watchdog expiry counts only with two identical goroutine dumps in which every wallet goroutine is blocked in a channel/lock/wait-group operation; the database directory must be open-able again; after restart (or without a stop) every tip is applied, the import turns ready, the removed wallet disappears",
  "goroutines are parked only at hook points (outside database transactions); API server and chain notifications are stopped before WalletManager.Stop as in loader.go; bounded progress (40-60 s) stands in for 'eventually'", "§5 C20")

CHECKS["C19"] = ("exploration", "request-grammar monitor: every api.APIServer handler except GetClientStatus and SendRawTransaction (34 handlers, incl. the chain-query ones over the simulator's chain database) called by reflection under recover() with a 60 s watchdog, requests drawn from a field-name aware grammar over the live wallet state (valid / valid-with-one-field-replaced / generated), interleaved with hostile blocks, unconfirmed transactions, reorganisations, held imports/removals and restarts; follower liveness and logrus exit-handler monitor after every chain event; a tenth under the Go race detector",
  "no handler may panic, return neither response nor error, hang with a structural deadlock, or still run after the watchdog and 200 000 storage calls (unbounded work); a 10 GiB memory guard ends a child whose wallet code allocates without bound; after every delivered block / unconfirmed transaction the follower must have consumed it and no wallet goroutine may have died",
  "GetClientStatus and SendRawTransaction are not exercised (need live peers / mempool); request strings valid UTF-8, no nil messages; chain events restricted to output classes block validation accepts; consensus minimum staking value lowered to 1 MASS per case", "§5 C19")

CHECKS["C17"] = ("exploration", "schedule control through the wallet-database interposer: each of four queries is parked in front of every one of its database reads while 1-2 tips (connect / reorg) are committed and the same question is asked undisturbed at every boundary; answer must equal one boundary's answer, a built transaction must be spendable at one boundary per the reference ledger; plus seven API goroutines against follower and worker under the Go race detector",
  "for every read gap of WalletBalance(detail), AddressBalance, GetUtxo and AutoCreateRawTransaction (quick: ≤14 sampled gaps per query and case plus every phase boundary of multi-transaction calls, also in a two-tip variant with a large wallet coinbase; thorough: all) the gated answer is compared with the set of boundary answers; race reports in which wallet code performs at least one of the two accesses are violations",
  "boundary answers come from the wallet itself (C01 checks them against the ledger); a building call that refuses with an error during a reorganisation is counted, not judged; races between two third-party accessors (mass-core ChainDb.NewestSha vs Commit, logger) are listed in the evidence, not judged", "§5 C17")

CHECKS["C11"] = ("exploration", "reference-model monitor (nested in-memory map with pending overlay) after every operation + porcupine linearizability check of concurrent transaction histories + Go race detector on a tenth of them",
  "sequential: every Get/GetByPrefix/BucketNames/iterator/Seek result and every error return of the real ldb driver on on-disk LevelDB is compared with the model across commit, rollback, error-return and close/reopen; concurrent: recorded call/return histories of whole transactions must be linearizable w.r.t. a sequential map",
  "trusts the 60-line map model and porcupine; iterators checked on committed data only; bucket re-creation error code not demanded", "§5 C11")

CHECKS["C01"] = ("exploration", "reference-ledger monitor: wallet API observations at quiescent points vs a ledger recomputed from scratch from the node simulator's best chain (real mass-core chain database), over seeded block-tree histories delivered lock-step and in bursts",
  "after every processed announcement (or burst of chain changes with the handler held) the full observation record of every wallet (UTXO multiset, four balances, per-address balances, gross balance, SyncedTo, mined staking/binding histories) must equal the ledger of the current best chain; histories contain forks of any depth with re-mined/dropped/double-spent rolled-back transactions",
  "trusts the 300-line reference ledger and mass-core's chain database/address index; node announces only the final tip of a reorg; consensus maturity constants lowered per case", "§5 C01")

CHECKS["C09"] = ("exploration", "pending-set model monitor: model driven by the same recv/connect/reorg event sequence vs GetUtxo flags, automatic coin selection, pending history entries, ledger equality and the decoded raw pending buckets",
  "after every step of seeded interleavings of unconfirmed deliveries with confirming / double-spending blocks and un-confirming reorgs, the wallet's pending bucket must equal the model set with every record decodable, flags and coin selection must respect it and confirmed funds must equal the ledger",
  "trusts the pending model (purge rules on wallet-owned coins only; children through strangers' outputs unspecified) and the bucket layouts of txmgr/type.go", "§5 C09")

CHECKS["C10"] = ("exploration", "reference-ledger monitor at every height (deposit list, withdrawn flags, withdrawable figures) + probes: automatic-selection inspection and wallet-built withdrawals checked against the consensus relative-lock rule and an independent script-engine run",
  "lock-step histories with small frozen periods cross every origin+frozen boundary block by block; at each height the deposit histories, flags and withdrawable sums must equal the ledger, no staking/binding coin may be auto-selected, and each withdrawal the wallet builds must carry exactly the sequence consensus derives and verify after signing",
  "trusts the ledger's transcription of calcSequenceLock/scriptval flag rule and mass-core's script engine; consensus constants lowered per case", "§5 C10")

CHECKS["C12"] = ("exploration", "address-book model monitor (issue order vs independent derivation from the mnemonic, gap rule evaluated on the reference ledger, listing/used flags after every step) + an actual mnemonic restore into a second wallet instance",
  "every NewAddress outcome is predicted (next index address or gap-limit error), every issued address must stay listed with the right used flag across payments (15 % in the other form of the key), reorgs that remove first payments and restarts, the restored instance goes on issuing and being paid, and a restore with index hints must rediscover every funded index",
  "trusts harness BIP-39/BIP-32 references for the expected address at index i; restore completeness demanded only while the final chain satisfies the gap invariant", "§5 C12")

CHECKS["C02"] = ("exploration", "conservation / ownership / eligibility / fee-bounds monitor on every transaction returned by the create calls, against the reference ledger and a reservation set kept by the monitor, plus must-succeed / must-fail funding regions",
  "every transaction built by AutoCreateRawTransaction, CreateRawTransaction, CreateStakingTransaction, CreateBindingTransaction and the API AutoCreateTransaction over seeded UTXO sets (few / hundreds of small / large+dust / mixed coins, immature and locked coins) and request sequences is decoded and checked for input ownership, eligibility, output exactness, change address, fee equality and bounds (relay minimum measured on the size after the wallet signs it)",
  "trusts the reference ledger, mass-core policy constants (relay fee, standard size) and the monitor's own reservation set; the band between the funding regions is unspecified", "§5 C02")

CHECKS["C03"] = ("exploration", "per-call sign monitor: witness-stripped byte equality, witness structure and hash-type byte, independent consensus script-engine run per input, and a refused-attempt monitor for wrong passphrases interleaved with right ones",
  "every SignRawTx result over seeded transactions (1-12 inputs across addresses and classes incl. staking/binding withdrawals and pending parents, six sighash flags, lock times, payloads) is verified input by input by mass-core's script engine with consensus flags; every wrong passphrase of a hostile family must be refused without output or side effect",
  "trusts mass-core's script engine and btcec for signature validity; SINGLE without a matching output not explored", "§5 C03")

CHECKS["C04"] = ("exploration", "metamorphic cross-instance monitor (create / keystore import / mnemonic import / restart under different public passphrases) + independent BIP-39/BIP-32/BIP-44-path derivation of id and addresses + address-pubkey-signature consistency",
  "wallet id and the address at every issued index must equal an independent derivation from (mnemonic, passphrase) and must be identical in every instance reached by export/import/restore/restart; every listed address must be the witness script hash of its public key and SignHash must produce a signature valid under that key",
  "trusts harness BIP-39/BIP-32 references (C13/C14 checks), btcec verification; wallets in the C14 known-finding class are checked for cross-instance equality only", "§5 C04")

CHECKS["C05"] = ("exploration", "needle-scan monitor over the raw wallet database (all keys/values and raw file bytes after close), exported keystores and error strings + refused-attempt monitor (passphrase error, zero commits, right passphrase still works)",
  "after seeded operation sequences on 1-3 wallets the persisted bytes and every output are searched for each wallet's secrets in four encodings; every wrong-passphrase attempt from a hostile candidate family on export / mnemonic / remove / sign must be refused without a database commit, across restarts and a wrong public passphrase; after every SignHash / SignRawTx (also one that fails on a later input) the right passphrase must still export and reveal the mnemonic twice in a row",
  "memory zeroing is not observable and not checked; secrets are derived with harness references and the repo's hdkeychain", "§5 C05")

CHECKS["C06"] = ("fault_enumeration", "crash-point enumeration through the storage interposer (freeze-and-abandon at every wallet-database commit boundary, both sides, plus double crashes) with a never-stopped twin and the reference ledger as oracles",
  "for each deterministic scenario variant (live following with reorgs; orderly stop + node moves on + start-up catch-up; background removal while blocks arrive; a block below the wallet's tip announced again and a start against a node that fell back and re-attaches the same blocks; two-batch import on a > 1000-block chain, boundaries of the import phase) every commit boundary k of the crash-free run is used as crash point before and after the commit; the restarted wallet must come up, finish background work and end in exactly the twin's observation record and the ledger",
  "crash model: the files hold exactly the first k commits (LevelDB batch write is the only write path); volatile state is lost by abandoning the instance; a wallet that stays importing/removing while every wallet goroutine is idle (goroutine-dump classifier) is a violation, a mere time-out inconclusive", "§5 C06")

CHECKS["C07"] = ("exploration", "reference-ledger monitor on a wallet restored from its mnemonic, with schedule control through a node-database interposer (rescan worker held inside the calls of a batch while chain changes are committed) and status / bounded-progress monitors",
  "a wallet known only by its mnemonic (addresses derived independently, index gaps below the gap limit) is restored on a chain containing its history; reorgs and new blocks are injected while the rescan transaction is open, also on 2100-3200-block chains with ≥3 batches; while importing it must be listed as importing and refuse selection/removal; it must finish within a bounded number of worker rounds and then equal the ledger",
  "the original live-watching wallet is represented by the reference ledger (C01); on the long chains a reorganisation from 1-3 blocks below the committed rescan cursor up to the tip is injected between two batches; a stalled import with all goroutines idle is a violation", "§5 C07")

CHECKS["C08"] = ("exploration", "raw residue scan of the closed wallet database with an explicit allowed-residue rule + reference-ledger monitor on survivors + build/sign probes + re-import of the removed mnemonic; worker parked between removal rounds for a restart, and between the two removal phases while blocks pay and spend the victim's coins",
  "after a removal in a multi-wallet shared history (pending transactions, staking/binding records, > 20 000 credits for multi-round removal, restart between rounds) the database must hold no entry naming the removed wallet's id, addresses or script hashes except pending transactions a survivor needs; survivors must equal the ledger, keep the pending-spend flags of the coins their still-pending transactions spend, and still build and sign; the mnemonic must import again and equal the ledger",
  "allowed residue is defined before looking at the code's result; refusal cases (wrong passphrase, importing) are covered by C05/C07", "§5 C08")

NOT_APPLICABLE = {}

def main():
    props = [json.loads(l)["id"] for l in open("/verif/properties.jsonl")]
    hooks_commits = []
    try:
        hooks_commits = [l.strip() for l in open("/verif/hooks_commits.txt") if l.strip()]
    except FileNotFoundError:
        pass
    m = {
     "version": 1,
     "setup_cmd": "cd /verif/harness && GOFLAGS=-mod=mod GOPROXY=off GOSUMDB=off GOTOOLCHAIN=local go build -tags verif -o /verif/work/vh.setup ./cmd/vh && rm -f /verif/work/vh.setup",
     "hooks": {
      "guard": "verif",
      "enable": "go build -tags verif (bin/check always builds the harness and /repo with -tags verif)",
      "baseline_off_cmd": "cd /repo && GOFLAGS=-mod=mod go test -json -vet=off -count=1 -timeout 25m ./...",
      "source_commits": hooks_commits,
      "add_only": True,
     },
     "engines": [
      {"name": "vh", "path": "harness/cmd/vh", "serves_properties": sorted(CHECKS), "kind_free_text": "Go runner: seeded case lists executed against the real code built from /repo in child processes; reference-model / differential / history monitors; race detector builds"},
     ],
     "checks": [],
     "notes": "See DESIGN.md. Every check: bin/check <ID> <tier> rebuilds the harness against /repo's working tree.",
     "not_applicable": [],
    }
    for pid in props:
        if pid in CHECKS:
            level, tech, text, note, ref = CHECKS[pid]
            m["checks"].append({
             "property_id": pid,
             "quick_cmd": f"bin/check {pid} quick",
             "thorough_cmd": f"bin/check {pid} thorough",
             "evidence_file": f"/verif/evidence/{pid}.json",
             "replay_cmd_template": f"bin/check {pid} quick --replay {{path}}",
             "engine": "vh",
             "level_claimed": {"category": level, "text": text, "design_ref": ref},
             "level_note": note,
             "technique": tech,
            })
        else:
            m["not_applicable"].append({"property_id": pid, "reason": NOT_APPLICABLE.get(pid, "check not built yet in this revision (planned, see DESIGN.md §5); not claimed")})
    json.dump(m, open("/verif/MANIFEST.json", "w"), indent=1, ensure_ascii=False)
    print("wrote MANIFEST.json with", len(m["checks"]), "checks")

main()
