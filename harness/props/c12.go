package props

import (
	"fmt"
	"math"
	"path/filepath"
	"strings"
	"time"

	"github.com/massnetorg/mass-core/wire"
	"massnet.org/mass-wallet/masswallet/keystore"
	"massnet.org/mass-wallet/masswallet/txmgr"

	"verifharness/core"
	"verifharness/sim"
)

// C12 — addresses are issued once, in order, durably, and stay rediscoverable.
// Monitor: address-book model (issued list by index, independent derivation of index i from the
// mnemonic, gap rule evaluated on the ledger) + an actual mnemonic restore in a second instance.

type c12Issued struct {
	Index   uint32
	Class   uint16
	Address string // in the issued form
	Hash    [32]byte
}

type c12Model struct {
	G      uint32
	issued []c12Issued
	seen   map[string]bool
	ref    *refWallet
}

// history: script hashes with any output on the best chain; staking form payments per hash.
func c12History(v *sim.View) (any map[[32]byte]bool, nonStaking map[[32]byte]bool, staking map[[32]byte]bool) {
	any, nonStaking, staking = map[[32]byte]bool{}, map[[32]byte]bool{}, map[[32]byte]bool{}
	for _, o := range v.SortedOuts() {
		if !o.HasHash {
			continue
		}
		any[o.Hash] = true
		if o.Class == sim.ClassStaking {
			staking[o.Hash] = true
		} else {
			nonStaking[o.Hash] = true
		}
	}
	return
}

func (m *c12Model) allowed(v *sim.View) bool {
	n := uint32(len(m.issued))
	if n == 0 || n+1 <= m.G {
		return true
	}
	hist, _, _ := c12History(v)
	for i := n - m.G; i < n; i++ {
		if hist[m.issued[i].Hash] {
			return true
		}
	}
	return false
}

func c12CheckListing(t *core.T, wd *sim.World, m *c12Model, id, when string) bool {
	t.Eval(1)
	v, err := sim.ViewOfChain(wd.N.BestChain())
	if err != nil {
		t.Fatalf("view: %v", err)
	}
	anyForm, _, staking := c12History(v)
	if _, err := wd.W.W.UseWallet(id); err != nil {
		t.Violate("usewallet-failed", when+": "+err.Error(), wd.Witness())
		return false
	}
	list, err := wd.W.W.GetAddresses(math.MaxUint16)
	if err != nil {
		t.Violate("getaddresses-failed", when+": "+err.Error(), wd.Witness())
		return false
	}
	got := map[string]bool{}
	listed := map[string]bool{}
	for _, a := range list {
		listed[a.Address] = true
		got[a.Address] = a.Used
	}
	ok := true
	for _, is := range m.issued {
		// an address issued in standard form is used when the best chain pays its key in either form
		// (the listing folds the staking form of a key into its standard address); an address issued
		// in staking form is used when the best chain pays that staking address
		want := anyForm[is.Hash]
		if is.Class == 1 {
			want = staking[is.Hash]
		}
		if !listed[is.Address] {
			w := wd.Witness()
			w["when"] = when
			t.Violate("issued-address-not-listed", fmt.Sprintf("%s: address %s (index %d, class %d) was issued but GetAddresses does not list it", when, is.Address, is.Index, is.Class), w)
			ok = false
			continue
		}
		if got[is.Address] != want {
			w := wd.Witness()
			w["when"] = when
			sig := "used-flag-stale"
			if want {
				sig = "used-flag-missing"
			}
			t.Violate(sig, fmt.Sprintf("%s: address %s (index %d, class %d): used=%v but the best chain %s a payment to it", when, is.Address, is.Index, is.Class, got[is.Address], map[bool]string{true: "contains", false: "does not contain"}[want]), w)
			ok = false
		}
	}
	return ok
}

func c12Case(t *core.T, maxSteps int) {
	G := uint32(t.R.Range(2, 6))
	if t.R.Chance(10) {
		G = uint32(t.R.Range(7, 20))
	}
	cfg := worldCfg{Maturity: 2, Wallets: 0, Gap: G}
	wd := newWorld(t, cfg)
	stopped := false
	defer func() {
		if !stopped {
			closeWorld(t, wd)
		} else {
			wd.N.Close()
			restoreConsensus()
		}
	}()
	pass := fmt.Sprintf("c12pass%d", t.R.Intn(100000))
	k, err := wd.NewWalletKeys(pass, []int{128, 192, 256}[t.R.Intn(3)], 0)
	if err != nil {
		t.Fatalf("create wallet: %v", err)
	}
	ref, err := refWalletFrom(k.Mnemonic, pass)
	if err != nil {
		t.Fatalf("reference derivation: %v", err)
	}
	m := &c12Model{G: G, seen: map[string]bool{}, ref: ref}
	if ref.ID() != k.ID {
		if ref.ShortRisk {
			t.Count("wallets_in_c14_known_finding_class", 1)
			m.ref = nil
		} else {
			t.Violate("wallet-id-not-derived-from-mnemonic", fmt.Sprintf("wallet id %s, independent derivation from the mnemonic gives %s", k.ID, ref.ID()), wd.Witness())
			return
		}
	}
	wd.StrangerPub()
	steps := t.R.Range(maxSteps/2, maxSteps)
	var shape []string
	refusals, reorgsRemovingUse, restarts := 0, 0, 0
	for s := 0; s < steps && !t.Failed(); s++ {
		if !wd.Settle() {
			t.Inconclusive("handler not idle")
			return
		}
		v, err := sim.ViewOfChain(wd.N.BestChain())
		if err != nil {
			t.Fatalf("view: %v", err)
		}
		switch t.R.Pick(40, 30, 12, 8) {
		case 0: // new address
			class := uint16(0)
			if t.R.Chance(30) {
				class = 1
			}
			allowed := m.allowed(v)
			n := uint32(len(m.issued))
			t.Eval(1)
			if _, err := wd.W.W.UseWallet(k.ID); err != nil {
				t.Violate("usewallet-failed", err.Error(), wd.Witness())
				return
			}
			addr, err := wd.W.W.NewAddress(class)
			wd.Logf("NewAddress(class %d) at next index %d (gap %d, model allows %v) -> %q %v", class, n, G, allowed, addr, err)
			if !allowed {
				refusals++
				if err == nil {
					t.Violate("address-issued-beyond-gap-limit", fmt.Sprintf("NewAddress issued %s at index %d although none of the last %d issued addresses has chain history", addr, n, G), wd.Witness())
					return
				}
				if err != keystore.ErrGapLimit {
					t.Violate("newaddress-wrong-error", fmt.Sprintf("NewAddress refused with %v (expected the gap-limit error)", err), wd.Witness())
					return
				}
				shape = append(shape, "x")
				continue
			}
			if err != nil {
				t.Violate("newaddress-refused", fmt.Sprintf("NewAddress refused (%v) although an address within the last %d issued has chain history (or fewer than %d were issued)", err, G, G), wd.Witness())
				return
			}
			if m.seen[addr] {
				t.Violate("address-issued-twice", fmt.Sprintf("NewAddress returned %s which it had returned before", addr), wd.Witness())
				return
			}
			h, herr := sim.HashOfAddress(addr)
			if herr != nil {
				t.Violate("newaddress-undecodable", herr.Error(), wd.Witness())
				return
			}
			for _, is := range m.issued {
				if is.Hash == h {
					t.Violate("address-issued-twice", fmt.Sprintf("NewAddress returned %s whose key was issued before as %s", addr, is.Address), wd.Witness())
					return
				}
			}
			if m.ref != nil {
				std, stk, _, ok := m.ref.Address(n)
				want := std
				if class == 1 {
					want = stk
				}
				if ok && addr != want {
					t.Violate("address-not-at-next-index", fmt.Sprintf("NewAddress returned %s; the address at the next derivation index %d is %s", addr, n, want), wd.Witness())
					return
				}
			}
			m.seen[addr] = true
			m.issued = append(m.issued, c12Issued{Index: n, Class: class, Address: addr, Hash: h})
			if !k.Owned[h] {
				k.Hashes = append(k.Hashes, h)
			}
			k.Owned[h] = true
			if class == 1 {
				k.Staking[h] = true
			} else {
				k.Std = append(k.Std, addr)
			}
			shape = append(shape, "n")
		case 1: // payment to an arbitrary issued address, in its issued form
			if len(m.issued) == 0 {
				continue
			}
			is := m.issued[t.R.Intn(len(m.issued))]
			if t.R.Chance(50) { // bias towards the newest ones (they decide the gap rule)
				is = m.issued[len(m.issued)-1-t.R.Intn(minInt(len(m.issued), int(G)))]
			}
			// mostly in the form in which it was issued; sometimes in the other form of the same key
			stakingForm := is.Class == 1
			if t.R.Chance(15) {
				stakingForm = !stakingForm
				t.Count("payments_in_the_other_form_of_the_key", 1)
			}
			script := sim.P2WSH(is.Hash)
			if stakingForm {
				script = sim.StakingScript(is.Hash, 3)
			}
			cb := sim.Coinbase(wd.N.Height()+1, t.R.Uint64(), []*wire.TxOut{wire.NewTxOut(int64(t.R.Range(1000, 9000000)), sim.P2WSH(wd.StrangerPub()))})
			var txs []*wire.MsgTx
			txs = append(txs, cb)
			// pay from a stranger coin if there is one, else directly in the coinbase
			paid := false
			for _, o := range v.SortedOuts() {
				if !o.Spent && o.HasHash && !k.Owned[o.Hash] && v.Mature(o) && o.Value > 5000 && o.Class == sim.ClassStd {
					txs = append(txs, sim.Spend([]wire.OutPoint{o.OP}, nil, []*wire.TxOut{wire.NewTxOut(o.Value-1000, script)}, t.R.Uint64()|1))
					paid = true
					break
				}
			}
			if !paid {
				cb.AddTxOut(wire.NewTxOut(int64(t.R.Range(1000, 9000000)), script))
				if stakingForm {
					// coinbases pay standard scripts only; pay next time
					cb.TxOut = cb.TxOut[:1]
					txs = txs[:1]
				}
			}
			b := wd.N.NewBlock(wd.N.Tip(), txs)
			if err := wd.N.Extend(b); err != nil {
				t.Fatalf("extend: %v", err)
			}
			wd.Logf("pay index %d (%s): extend %s", is.Index, is.Address[:14], wd.BlockDesc(b))
			wd.W.Deliver(b)
			shape = append(shape, "p")
		case 2: // reorg, possibly removing first payments
			height := int(wd.N.Height())
			if height < 2 {
				continue
			}
			depth := t.R.Range(1, minInt(4, height-1))
			before, _, _ := c12History(v)
			nb, _, err := wd.Fork(depth, depth+t.R.Range(0, 1), 0)
			if err != nil {
				t.Fatalf("fork: %v", err)
			}
			if nb == nil {
				continue
			}
			wd.W.Deliver(nb)
			v2, _ := sim.ViewOfChain(wd.N.BestChain())
			after, _, _ := c12History(v2)
			for _, is := range m.issued {
				if before[is.Hash] && !after[is.Hash] {
					reorgsRemovingUse++
					break
				}
			}
			shape = append(shape, fmt.Sprintf("f%d", depth))
		case 3: // restart
			if !wd.W.Stop(30 * time.Second) {
				t.Inconclusive("Stop did not return (C20's subject)")
				stopped = true
				return
			}
			w2, err := sim.OpenWallet(wd.N, wd.W.Dir, wd.W.Cfg)
			if err != nil {
				t.Violate("reopen-failed", err.Error(), wd.Witness())
				stopped = true
				return
			}
			if err := w2.Start(); err != nil {
				t.Violate("restart-failed", err.Error(), wd.Witness())
				w2.CloseUnstarted()
				stopped = true
				return
			}
			wd.W = w2
			wd.Logf("-- restart")
			restarts++
			shape = append(shape, "R")
		}
		if !wd.Settle() {
			t.Inconclusive("handler not idle")
			return
		}
		if !c12CheckListing(t, wd, m, k.ID, fmt.Sprintf("after step %d", s)) {
			return
		}
	}
	if t.Failed() {
		return
	}
	// ---- restore in a second instance on the final chain -----------------------------------
	v, _ := sim.ViewOfChain(wd.N.BestChain())
	hist, _, _ := c12History(v)
	var usedIdx []uint32
	for _, is := range m.issued {
		if hist[is.Hash] {
			usedIdx = append(usedIdx, is.Index)
		}
	}
	hint := uint32(0)
	switch t.R.Intn(3) {
	case 1:
		hint = 1
	case 2:
		hint = uint32(t.R.Intn(len(m.issued) + 1))
	}
	// the scan covers indexes < max(hint,1)+G initially and G past every used index
	reach := hint
	if reach == 0 {
		reach = 1
	}
	reach += G
	invariant := true
	for _, u := range usedIdx {
		if u >= reach {
			invariant = false
			break
		}
		if u+1+G > reach {
			reach = u + 1 + G
		}
	}
	if !wd.W.Stop(30 * time.Second) {
		t.Inconclusive("Stop did not return (C20's subject)")
		stopped = true
		return
	}
	stopped = true
	w2, err := sim.OpenWallet(wd.N, filepath.Join(t.Dir, "wallet-restore"), sim.NewConfig(G))
	if err != nil {
		t.Fatalf("open second instance: %v", err)
	}
	if err := w2.Start(); err != nil {
		t.Fatalf("start second instance: %v", err)
	}
	defer w2.Stop(30 * time.Second)
	t.Eval(1)
	// the restore may also carry a hint for the internal (change) branch, as a keystore file does
	intHint := uint32(0)
	if t.R.Chance(50) {
		intHint = uint32(t.R.Range(1, 8))
	}
	sum, err := w2.W.ImportWalletWithMnemonic(&keystore.WalletParams{Mnemonic: k.Mnemonic, PrivatePassphrase: []byte(pass), Remarks: "r", ExternalIndex: hint, InternalIndex: intHint, AddressGapLimit: G})
	wd.Logf("restore with hint %d (internal branch %d) -> %v (used indexes %v, gap invariant on final chain %v)", hint, intHint, err, usedIdx, invariant)
	if err != nil {
		t.Violate("restore-failed", fmt.Sprintf("ImportWalletWithMnemonic failed: %v", err), wd.Witness())
		return
	}
	if sum.WalletID != k.ID {
		t.Violate("restore-different-id", fmt.Sprintf("restored wallet id %s, original %s", sum.WalletID, k.ID), wd.Witness())
		return
	}
	if !w2.WorkerIdle(60 * time.Second) {
		t.Inconclusive("import did not finish within 60s")
		return
	}
	if _, err := w2.W.UseWallet(k.ID); err != nil {
		t.Violate("usewallet-failed", "restored wallet: "+err.Error(), wd.Witness())
		return
	}
	list, err := w2.W.GetAddresses(math.MaxUint16)
	if err != nil {
		t.Violate("getaddresses-failed", err.Error(), wd.Witness())
		return
	}
	found := map[[32]byte]bool{}
	for _, a := range list {
		if h, err := sim.HashOfAddress(a.Address); err == nil {
			found[h] = true
		}
	}
	if invariant {
		for _, is := range m.issued {
			if hist[is.Hash] && !found[is.Hash] {
				t.Violate("restore-misses-funded-address", fmt.Sprintf("mnemonic restore (hint %d, gap limit %d) did not rediscover index %d (%s) which has chain history; used indexes %v", hint, G, is.Index, is.Address, usedIdx), wd.Witness())
				return
			}
		}
		t.Count("restores_checked_complete", 1)
	} else {
		t.Count("restores_skipped_gap_invariant_broken_by_reorg", 1)
	}
	if m.ref != nil && !c12AfterRestore(t, wd, w2, m.ref, list) {
		return
	}
	t.Count("gap_refusals_observed", refusals)
	t.Count("reorgs_removing_a_first_payment", reorgsRemovingUse)
	t.Count("restarts", restarts)
	t.Max("issued_addresses", len(m.issued))
	if refusals > 0 || reorgsRemovingUse > 0 {
		t.Nontrivial(fmt.Sprintf("g%d|%s", G, strings.Join(shape, "")))
	}
	ops := wd.Ops
	if len(ops) > 25 {
		ops = ops[:25]
	}
	t.Sample(map[string]interface{}{"gap_limit": G, "shape": strings.Join(shape, " "), "first_ops": ops})
}

// c12AfterRestore: the restored wallet goes on issuing addresses. Each must be new, lie past every
// address the restore listed, follow its predecessor directly, be listed from then on, and be
// flagged as used (with its coin reported) as soon as the best chain pays it - before any restart
// and after one.
func c12AfterRestore(t *core.T, wd *sim.World, w2 *sim.Wallet, ref *refWallet, list []*txmgr.AddressDetail) bool {
	idxOf := func(addr string) (int, bool) {
		for i := 0; i < 600; i++ {
			std, stk, _, ok := ref.Address(uint32(i))
			if ok && (std == addr || stk == addr) {
				return i, true
			}
		}
		return -1, false
	}
	maxListed := -1
	listed := map[string]bool{}
	for _, a := range list {
		listed[a.Address] = true
		if i, ok := idxOf(a.Address); ok && i > maxListed {
			maxListed = i
		}
	}
	prev := -1
	type paid struct {
		addr string
		amt  int64
	}
	var pays []paid
	check := func(when string) bool {
		l2, err := w2.W.GetAddresses(math.MaxUint16)
		if err != nil {
			t.Violate("getaddresses-failed", when+": "+err.Error(), wd.Witness())
			return false
		}
		for _, p := range pays {
			var d *txmgr.AddressDetail
			for _, a := range l2 {
				if a.Address == p.addr {
					d = a
				}
			}
			if d == nil {
				t.Violate("issued-address-not-listed", fmt.Sprintf("%s: address %s issued by the restored wallet is not listed", when, p.addr), wd.Witness())
				return false
			}
			if !d.Used {
				t.Violate("used-flag-missing", fmt.Sprintf("%s: address %s issued by the restored wallet: used=false but the best chain contains a payment to it", when, p.addr), wd.Witness())
				return false
			}
			us, err := w2.W.GetUtxo([]string{p.addr})
			if err != nil {
				t.Violate("getutxo-failed", when+": "+err.Error(), wd.Witness())
				return false
			}
			n := 0
			for _, l := range us {
				n += len(l)
			}
			if n != 1 {
				t.Violate("payment-to-issued-address-not-reported", fmt.Sprintf("%s: address %s issued by the restored wallet was paid once on the best chain, the wallet reports %d coins for it", when, p.addr, n), wd.Witness())
				return false
			}
		}
		return true
	}
	rounds := t.R.Range(1, 3)
	for r := 0; r < rounds; r++ {
		t.Eval(1)
		class := uint16(0)
		addr, err := w2.W.NewAddress(class)
		if err == keystore.ErrGapLimit {
			t.Count("after_restore_newaddress_refused_by_gap_rule", 1)
			break
		}
		if err != nil {
			t.Violate("newaddress-refused", fmt.Sprintf("restored wallet: NewAddress failed: %v", err), wd.Witness())
			return false
		}
		i, ok := idxOf(addr)
		wd.Logf("restored wallet: NewAddress -> %s (index %d, restore listed up to index %d)", addr, i, maxListed)
		if !ok {
			t.Violate("address-not-at-next-index", fmt.Sprintf("restored wallet: NewAddress returned %s, which is none of the first 600 addresses of the mnemonic", addr), wd.Witness())
			return false
		}
		if listed[addr] || i <= maxListed {
			t.Violate("address-issued-twice", fmt.Sprintf("restored wallet: NewAddress returned %s (index %d) although the restore had listed addresses up to index %d", addr, i, maxListed), wd.Witness())
			return false
		}
		if prev >= 0 && i != prev+1 {
			t.Violate("address-not-at-next-index", fmt.Sprintf("restored wallet: NewAddress returned index %d after index %d", i, prev), wd.Witness())
			return false
		}
		prev = i
		listed[addr] = true
		h, herr := sim.HashOfAddress(addr)
		if herr != nil {
			t.Violate("newaddress-undecodable", herr.Error(), wd.Witness())
			return false
		}
		amt := int64(t.R.Range(1000, 900000))
		cb := sim.Coinbase(wd.N.Height()+1, t.R.Uint64(), []*wire.TxOut{wire.NewTxOut(int64(t.R.Range(1000, 9000)), sim.P2WSH(wd.StrangerPub())), wire.NewTxOut(amt, sim.P2WSH(h))})
		b := wd.N.NewBlock(wd.N.Tip(), []*wire.MsgTx{cb})
		if err := wd.N.Extend(b); err != nil {
			t.Fatalf("extend: %v", err)
		}
		w2.Deliver(b)
		if !w2.Quiesce(30 * time.Second) {
			t.Inconclusive("handler of the restored instance not idle")
			return false
		}
		pays = append(pays, paid{addr, amt})
		if !check(fmt.Sprintf("after paying address %d of the restored wallet", i)) {
			return false
		}
		t.Count("addresses_issued_and_paid_after_restore", 1)
	}
	return true
}

func minInt(a, b int) int {
	if a < b {
		return a
	}
	return b
}

func init() {
	plans := map[string]struct{ cases, steps int }{
		"quick":    {cases: 150, steps: 50},
		"thorough": {cases: 4000, steps: 90},
	}
	core.Register(&core.Property{
		ID:    "C12",
		Level: "exploration",
		Rule: "case = seeded sequence of NewAddress (both classes), payments to arbitrary issued addresses (biased to the newest gap-limit ones), reorgs of depth 1-4 that may remove first payments, restarts, with gap limit 2-6 (10%: 7-20); after every step each issued address must be listed with used == 'best chain pays it'; " +
			"every NewAddress is predicted by the model (must succeed at the next derivation index — address recomputed independently from the mnemonic — or must fail with the gap-limit error); at the end the mnemonic is restored into a second instance (hint 0, 1 or random) and must rediscover every issued address with chain history " +
			"(skipped and counted when a reorg broke the gap invariant on the final chain). distinct_nontrivial = distinct (gap, op shape) of cases with ≥1 gap refusal or ≥1 reorg removing a first payment",
		Assumptions: []string{"an address issued in standard form counts as used when the best chain pays its key in either form (the listing folds the staking form into the standard address); an address issued in staking form when the chain pays that staking address; 15 % of the payments use the other form of the key", "index derivation reference = harness BIP-39/BIP-32 (wallets in the C14 known-finding class are checked for ordering/uniqueness only)", "restore completeness is demanded only while the used indexes of the final chain satisfy the gap invariant"},
		Cases:       func(tier string, seed int64) int { return plans[tier].cases },
		Run:         func(t *core.T) { c12Case(t, plans[t.Tier].steps) },
	})
}
