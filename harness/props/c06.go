package props

import (
	"fmt"
	"os"
	"path/filepath"
	"sort"
	"strings"
	"time"

	"github.com/massnetorg/mass-core/consensus"
	"github.com/massnetorg/mass-core/wire"
	"massnet.org/mass-wallet/masswallet/keystore"

	"verifharness/core"
	"verifharness/sim"
)

// C06 — a crash at any instant loses nothing and applies nothing twice.
// Fault enumeration: for a deterministic scenario a dry run counts the wallet-database commits
// C(S); then for every commit boundary k (or a stratified sample for the long scenarios) and both
// sides (before = commit k is lost, after = commit k is the last one written) the run is repeated
// with the storage interposer freezing the database at that boundary (every later commit dropped,
// every later begin refused), the instance is stopped and abandoned with all its volatile state, a
// new instance is opened on the same directory, and the scenario continues. Oracles: the final
// observation record must equal the never-stopped twin's, and the reference ledger.

type c06Env struct {
	t       *core.T
	dir     string
	rs      *core.Rand // deterministic stream of the scenario (same for twin and crash runs)
	wd      *sim.World
	gap     uint32
	crashK  int64 // 0 = never
	before  bool
	crashes int
	log     []string
	mn      map[string]string // wallet label -> mnemonic
	pass    map[string]string
	ids     map[string]string
	second  int64 // second crash boundary (counted after the first restart), 0 = none
	done    int64 // commits of earlier, orderly stopped instances
}

func (e *c06Env) logf(f string, a ...interface{}) {
	if os.Getenv("VERIF_TRACE") != "" {
		fmt.Fprintf(os.Stderr, "[%s k=%d before=%v] %s\n", time.Now().Format("15:04:05.000"), e.crashK, e.before, fmt.Sprintf(f, a...))
	}
	if len(e.log) < 400 {
		e.log = append(e.log, fmt.Sprintf(f, a...))
	}
}

func (e *c06Env) arm(w *sim.Wallet, k int64, before bool) {
	if k <= 0 {
		return
	}
	base := int64(0)
	if before {
		w.DB.SetHook(func(ev *sim.Event) error {
			if ev.Kind == "commit" && !w.DB.Frozen() && w.DB.Commits()+1-base == k {
				w.DB.Freeze()
				return sim.ErrFrozen
			}
			return nil
		})
	} else {
		w.DB.SetOnCommitted(func(ev *sim.Event, n int64) {
			if n-base == k {
				w.DB.Freeze()
			}
		})
	}
}

// open (or reopen) the wallet instance; Start may itself hit the crash point.
func (e *c06Env) open(node *sim.Node, armK int64, before bool) (*sim.Wallet, error) {
	w, err := sim.OpenWallet(node, filepath.Join(e.dir, "wallet"), sim.NewConfig(e.gap))
	if err != nil {
		return nil, fmt.Errorf("open: %v", err)
	}
	e.arm(w, armK, before)
	if err := w.Start(); err != nil {
		if w.DB.Frozen() {
			// crash during start-up catch-up: abandon this instance
			w.CloseUnstarted()
			return nil, sim.ErrFrozen
		}
		w.CloseUnstarted()
		return nil, fmt.Errorf("start: %v", err)
	}
	return w, nil
}

// restart abandons the frozen instance and brings up a new one (which may crash again at the
// second boundary).
func (e *c06Env) restart() error {
	e.crashes++
	e.logf("-- CRASH #%d (commits so far %d) -- restart", e.crashes, e.wd.W.DB.Commits())
	if !e.wd.W.Stop(30 * time.Second) {
		return fmt.Errorf("inconclusive: Stop of the crashed instance did not return")
	}
	for attempt := 0; attempt < 4; attempt++ {
		k2 := int64(0)
		if e.crashes == 1 && attempt == 0 {
			k2 = e.second
		}
		w, err := e.open(e.wd.N, k2, e.before)
		if err == sim.ErrFrozen {
			e.crashes++
			e.logf("-- CRASH #%d during start-up catch-up -- restart", e.crashes)
			continue
		}
		if err != nil {
			return fmt.Errorf("violation: the wallet does not come up after the crash: %v", err)
		}
		e.wd.W = w
		return nil
	}
	return fmt.Errorf("violation: the wallet keeps failing to start after the crash")
}

// step runs one scenario step; if the database froze during it, restart and (for API steps that
// reported failure) repeat it.
func (e *c06Env) step(name string, api bool, fn func() error) error {
	for attempt := 0; attempt < 4; attempt++ {
		e.logf("step %s (attempt %d)", name, attempt)
		err := fn()
		// let the handler / worker reach the crash point if it is theirs
		if !api {
			e.wd.W.Quiesce(20 * time.Second)
		}
		if e.wd.W.DB.Frozen() {
			if rerr := e.restart(); rerr != nil {
				return rerr
			}
			if api && err != nil {
				e.logf("repeat %s after the restart (it had failed with %v)", name, err)
				continue
			}
			return nil
		}
		if err != nil {
			return fmt.Errorf("step %s: %v", name, err)
		}
		return nil
	}
	return fmt.Errorf("step %s keeps crashing", name)
}

func (e *c06Env) waitIdle() error {
	for i := 0; i < 6; i++ {
		e.wd.W.Quiesce(30 * time.Second)
		ok := e.wd.W.WorkerIdle(40 * time.Second)
		if e.wd.W.DB.Frozen() {
			if rerr := e.restart(); rerr != nil {
				return rerr
			}
			continue
		}
		if !ok {
			if st, sum, _ := c20Structural(); st {
				return fmt.Errorf("violation: an import or removal accepted before the crash never finishes: every wallet goroutine is idle (%s)", strings.Join(sum, "; "))
			}
			return fmt.Errorf("inconclusive: background work did not finish")
		}
		if e.wd.W.Quiesce(30 * time.Second) {
			return nil
		}
	}
	return fmt.Errorf("inconclusive: no quiescence")
}

// importWallet creates a wallet deterministically (mnemonic from the scenario stream).
func (e *c06Env) importWallet(label string) error {
	if _, ok := e.mn[label]; !ok {
		ent := e.rs.Bytes(16)
		m, err := keystore.NewMnemonic(ent)
		if err != nil {
			return err
		}
		e.mn[label] = m
		e.pass[label] = "c06pass" + label
	}
	return e.step("import "+label, true, func() error {
		sum, err := e.wd.W.W.ImportWalletWithMnemonic(&keystore.WalletParams{Mnemonic: e.mn[label], PrivatePassphrase: []byte(e.pass[label]), Remarks: label, AddressGapLimit: e.gap})
		if err != nil {
			if strings.Contains(err.Error(), "duplicate seed") {
				return nil // the import had been committed before the crash
			}
			return err
		}
		e.ids[label] = sum.WalletID
		return nil
	})
}

// keysOf (re)reads the addresses of a wallet from the running instance.
func (e *c06Env) keysOf(label string) (*sim.WalletKeys, error) {
	ref, err := refWalletFrom(e.mn[label], e.pass[label])
	if err != nil {
		return nil, err
	}
	id := e.ids[label]
	if id == "" {
		// known only through the repeated import: find it by listing
		ws, err := e.wd.W.W.Wallets()
		if err != nil {
			return nil, err
		}
		for _, s := range ws {
			if s.Remarks == label {
				id = s.WalletID
			}
		}
		e.ids[label] = id
	}
	_ = ref
	k := &sim.WalletKeys{ID: id, Pass: e.pass[label], Mnemonic: e.mn[label], Owned: map[[32]byte]bool{}, Staking: map[[32]byte]bool{}}
	if _, err := e.wd.W.W.UseWallet(id); err != nil {
		return nil, err
	}
	list, err := e.wd.W.W.GetAddresses(0)
	if err != nil {
		return nil, err
	}
	var addrs []string
	for _, a := range list {
		addrs = append(addrs, a.Address)
	}
	sort.Strings(addrs)
	for _, a := range addrs {
		h, err := sim.HashOfAddress(a)
		if err != nil {
			continue
		}
		k.Std = append(k.Std, a)
		k.Hashes = append(k.Hashes, h)
		k.Owned[h] = true
	}
	return k, nil
}

func (e *c06Env) refreshKeys(labels ...string) error {
	e.wd.Keys = nil
	for _, l := range labels {
		k, err := e.keysOf(l)
		if err != nil {
			return err
		}
		e.wd.Keys = append(e.wd.Keys, k)
	}
	return nil
}

func (e *c06Env) newAddress(label string) error {
	return e.step("newaddress "+label, true, func() error {
		if _, err := e.wd.W.W.UseWallet(e.ids[label]); err != nil {
			return err
		}
		_, err := e.wd.W.W.NewAddress(0)
		if err == keystore.ErrGapLimit {
			return nil
		}
		return err
	})
}

func (e *c06Env) extend(nRandom int, announce bool) error {
	return e.step("extend", false, func() error {
		old := e.wd.R
		e.wd.R = e.rs
		b, err := e.wd.Extend(nRandom)
		e.wd.R = old
		if err != nil {
			return err
		}
		if announce {
			e.wd.W.Deliver(b)
		}
		return nil
	})
}

func (e *c06Env) fork(depth, length int) error {
	return e.step("fork", false, func() error {
		old := e.wd.R
		e.wd.R = e.rs
		nb, _, err := e.wd.Fork(depth, length, 1)
		e.wd.R = old
		if err != nil {
			return err
		}
		if nb != nil {
			e.wd.W.Deliver(nb)
		}
		return nil
	})
}

// scenario drivers ------------------------------------------------------------------------

func (e *c06Env) scenario(kind string) error {
	switch kind {
	case "S1": // live following with reorgs
		if err := e.importWallet("a"); err != nil {
			return err
		}
		if err := e.importWallet("b"); err != nil {
			return err
		}
		if err := e.waitIdle(); err != nil {
			return err
		}
		for i := 0; i < 2; i++ {
			if err := e.newAddress("a"); err != nil {
				return err
			}
		}
		if err := e.refreshKeys("a", "b"); err != nil {
			return err
		}
		steps := e.rs.Range(14, 22)
		for s := 0; s < steps; s++ {
			if e.rs.Chance(22) && e.wd.N.Height() > 3 {
				d := e.rs.Range(1, 3)
				if err := e.fork(d, d+e.rs.Range(0, 1)); err != nil {
					return err
				}
			} else if err := e.extend(e.rs.Range(0, 3), true); err != nil {
				return err
			}
		}
	case "S2": // start-up catch-up of 30-60 blocks
		if err := e.importWallet("a"); err != nil {
			return err
		}
		if err := e.waitIdle(); err != nil {
			return err
		}
		if err := e.refreshKeys("a"); err != nil {
			return err
		}
		for i := 0; i < 5; i++ {
			if err := e.extend(1, true); err != nil {
				return err
			}
		}
		if err := e.waitIdle(); err != nil {
			return err
		}
		// stop; the node moves on (incl. a reorg below the wallet's tip); start again
		if !e.wd.W.Stop(30 * time.Second) {
			return fmt.Errorf("inconclusive: Stop did not return")
		}
		e.done += e.wd.W.DB.Commits()
		e.logf("-- orderly stop; node continues")
		old := e.wd.R
		e.wd.R = e.rs
		if _, _, err := e.wd.Fork(2, 3, 1); err != nil {
			return err
		}
		n := e.rs.Range(30, 60)
		for i := 0; i < n; i++ {
			if _, err := e.wd.Extend(e.rs.Range(0, 2)); err != nil {
				return err
			}
		}
		e.wd.R = old
		for attempt := 0; ; attempt++ {
			k := int64(0)
			if e.crashes == 0 && e.crashK > e.done {
				// the crash boundary lies in this instance's lifetime (maybe inside the catch-up)
				k = e.crashK - e.done
			}
			w, err := e.open(e.wd.N, k, e.before)
			if err == sim.ErrFrozen && attempt < 4 {
				e.crashes++
				e.logf("-- CRASH #%d during start-up catch-up -- restart", e.crashes)
				continue
			}
			if err != nil {
				return fmt.Errorf("violation: start after the orderly stop failed: %v", err)
			}
			e.wd.W = w
			break
		}
		for i := 0; i < 3; i++ {
			if err := e.extend(1, true); err != nil {
				return err
			}
		}
	case "S6": // the wallet is handed a block below its own tip: a block delivered twice; the node fell back while the wallet was stopped
		if err := e.importWallet("a"); err != nil {
			return err
		}
		if err := e.waitIdle(); err != nil {
			return err
		}
		if err := e.refreshKeys("a"); err != nil {
			return err
		}
		for i := 0; i < 6; i++ {
			if err := e.extend(e.rs.Range(1, 2), true); err != nil {
				return err
			}
		}
		if err := e.waitIdle(); err != nil {
			return err
		}
		// (1) a block the wallet already has (1-2 below its tip) is announced again, as happens when a
		// block connects between listener registration and the height read of a start-up: the wallet
		// goes back to it (no connect in that commit) and is brought forward by the next announcement
		d1 := e.rs.Range(1, 2)
		if err := e.step("announce again", false, func() error {
			bc := e.wd.N.BestChain()
			return e.wd.W.Deliver(bc[len(bc)-1-d1])
		}); err != nil {
			return err
		}
		if e.rs.Chance(50) {
			if err := e.waitIdle(); err != nil {
				return err
			}
		}
		if err := e.extend(e.rs.Range(0, 2), true); err != nil {
			return err
		}
		if err := e.waitIdle(); err != nil {
			return err
		}
		// (2) orderly stop; the node comes back 1-3 blocks below the wallet's tip (stopped in the detach
		// phase of a reorganisation); the wallet starts against it; the node then attaches the very
		// same blocks again and goes on
		if !e.wd.W.Stop(30 * time.Second) {
			return fmt.Errorf("inconclusive: Stop did not return")
		}
		e.done += e.wd.W.DB.Commits()
		d2 := e.rs.Range(1, 3)
		bc := e.wd.N.BestChain()
		oldTip := bc[len(bc)-1]
		e.logf("-- orderly stop; node falls back %d blocks", d2)
		if _, _, err := e.wd.N.Reorganize(bc[len(bc)-1-d2]); err != nil {
			return err
		}
		for attempt := 0; ; attempt++ {
			k := int64(0)
			if e.crashes == 0 && e.crashK > e.done {
				k = e.crashK - e.done
			}
			w, err := e.open(e.wd.N, k, e.before)
			if err == sim.ErrFrozen && attempt < 4 {
				e.crashes++
				e.logf("-- CRASH #%d during start-up -- restart", e.crashes)
				continue
			}
			if err != nil {
				return fmt.Errorf("violation: start after the orderly stop failed: %v", err)
			}
			e.wd.W = w
			break
		}
		e.logf("-- node attaches the same %d blocks again", d2)
		if _, _, err := e.wd.N.Reorganize(oldTip); err != nil {
			return err
		}
		for i := 0; i < 3; i++ {
			if err := e.extend(e.rs.Range(0, 1), true); err != nil {
				return err
			}
		}
	case "S4": // import of a wallet with history on a chain of > 1000 blocks: two rescan batches
		if err := e.importWallet("a"); err != nil {
			return err
		}
		if err := e.waitIdle(); err != nil {
			return err
		}
		if err := e.refreshKeys("a"); err != nil {
			return err
		}
		// b exists as a mnemonic only; its first addresses are derived independently and paid
		var kb *sim.WalletKeys
		for kb == nil {
			m, err := keystore.NewMnemonic(e.rs.Bytes(16))
			if err != nil {
				return err
			}
			ref, err := refWalletFrom(m, "c06passb")
			if err != nil || ref.ShortRisk {
				continue
			}
			e.mn["b"], e.pass["b"] = m, "c06passb"
			kb = &sim.WalletKeys{ID: ref.ID(), Pass: "c06passb", Mnemonic: m, Owned: map[[32]byte]bool{}, Staking: map[[32]byte]bool{}}
			for i := uint32(0); i < 3; i++ {
				if std, _, h, ok := ref.Address(i); ok {
					kb.Std = append(kb.Std, std)
					kb.Hashes = append(kb.Hashes, h)
					kb.Owned[h] = true
				}
			}
		}
		e.wd.Keys = append(e.wd.Keys, kb)
		n := 1002 + e.rs.Intn(6)
		for i := 0; i < n; i++ {
			nr := 0
			if i%83 == 7 || i > n-6 {
				nr = 2
			}
			if err := e.extend(nr, true); err != nil {
				return err
			}
		}
		if err := e.waitIdle(); err != nil {
			return err
		}
		e.wd.Keys = e.wd.Keys[:1]
		if err := e.importWallet("b"); err != nil {
			return err
		}
		for i := 0; i < 2; i++ {
			if err := e.extend(1, true); err != nil {
				return err
			}
		}
		if err := e.waitIdle(); err != nil {
			return err
		}
		if err := e.refreshKeys("a", "b"); err != nil {
			return err
		}
		if err := e.extend(1, true); err != nil {
			return err
		}
	case "S5": // background removal of one of two wallets
		if err := e.importWallet("a"); err != nil {
			return err
		}
		if err := e.importWallet("b"); err != nil {
			return err
		}
		if err := e.waitIdle(); err != nil {
			return err
		}
		if err := e.refreshKeys("a", "b"); err != nil {
			return err
		}
		for i := 0; i < e.rs.Range(10, 16); i++ {
			if err := e.extend(e.rs.Range(1, 4), true); err != nil {
				return err
			}
		}
		if err := e.waitIdle(); err != nil {
			return err
		}
		// the keystore file of b, taken while it exists (no commit): half of the variants bring b back
		// from it after the removal - a keystore-file import writes keystore, status and address book
		reimport := e.rs.Bool()
		var bFile string
		if reimport {
			// two addresses nobody pays: only the address book knows them
			for i := 0; i < 2; i++ {
				if err := e.newAddress("b"); err != nil {
					return err
				}
			}
			js, err := e.wd.W.W.ExportWallet(e.ids["b"], e.pass["b"])
			if err != nil {
				return fmt.Errorf("harness: export b: %v", err)
			}
			bFile = js
		}
		if err := e.step("remove b", true, func() error {
			err := e.wd.W.W.RemoveWallet(e.ids["b"], e.pass["b"])
			if err != nil && strings.Contains(err.Error(), "not found") {
				return nil
			}
			return err
		}); err != nil {
			return err
		}
		// blocks keep arriving while the removal runs
		for i := 0; i < 3; i++ {
			if err := e.extend(1, true); err != nil {
				return err
			}
		}
		if err := e.waitIdle(); err != nil {
			return err
		}
		if reimport {
			if err := e.step("import b from its keystore file", true, func() error {
				_, err := e.wd.W.W.ImportWallet(bFile, e.pass["b"])
				if err != nil && strings.Contains(err.Error(), "duplicate seed") {
					return nil // committed before the crash
				}
				return err
			}); err != nil {
				return err
			}
			if err := e.extend(1, true); err != nil {
				return err
			}
			if err := e.waitIdle(); err != nil {
				return err
			}
		} else {
			// the removed wallet is gone from the expectation
			e.wd.Keys = e.wd.Keys[:1]
		}
	}
	return e.waitIdle()
}

var _ = consensus.CoinbaseMaturity

func (e *c06Env) fields() map[string]interface{} {
	l := e.log
	if len(l) > 120 {
		l = append([]string{"…"}, l[len(l)-120:]...)
	}
	return map[string]interface{}{"scenario_log": l, "world_ops_tail": tailStr(e.wd.Ops, 40)}
}

func tailStr(s []string, n int) []string {
	if len(s) > n {
		return s[len(s)-n:]
	}
	return s
}

// c06Run executes the scenario once. Returns final observation, commit count and op roles.
func c06Run(t *core.T, kind string, seed uint64, runDir string, k int64, before bool, second int64) (*sim.Obs, int64, *c06Env, error) {
	sim.InitProcess(filepath.Join(filepath.Dir(t.Dir), "log"))
	restoreConsensus()
	if kind != "S4" {
		consensus.CoinbaseMaturity = 3
	}
	e := &c06Env{t: t, dir: runDir, rs: core.NewRand(seed), gap: 20, crashK: k, before: before, second: second,
		mn: map[string]string{}, pass: map[string]string{}, ids: map[string]string{}}
	n, err := sim.NewNode(filepath.Join(runDir, "node"))
	if err != nil {
		return nil, 0, e, fmt.Errorf("harness: node: %v", err)
	}
	defer n.Close()
	defer restoreConsensus()
	e.wd = &sim.World{T: t, R: e.rs, N: n}
	w, err := e.open(n, k, before)
	if err != nil {
		return nil, 0, e, fmt.Errorf("harness: %v", err)
	}
	e.wd.W = w
	e.wd.StrangerPub()
	serr := e.scenario(kind)
	var obs *sim.Obs
	var commits int64
	if serr == nil {
		var ids []string
		for _, kk := range e.wd.Keys {
			ids = append(ids, kk.ID)
		}
		obs = e.wd.W.Observe(ids)
		commits = e.done + e.wd.W.DB.Commits()
		if d := e.wd.CheckLedger(sim.CompareOpts{Histories: true, AddrBal: true}); len(d) > 0 {
			var lines []string
			for id, dd := range d {
				for _, x := range dd {
					lines = append(lines, id+": "+x)
				}
			}
			sort.Strings(lines)
			serr = fmt.Errorf("violation: ledger: %s", strings.Join(lines, " | "))
		}
	}
	if !e.wd.W.Stop(30 * time.Second) {
		if serr == nil {
			serr = fmt.Errorf("inconclusive: final Stop did not return")
		}
	}
	return obs, commits, e, serr
}

func c06Case(t *core.T, kind string, variant int, maxK int, pairs int) {
	seed := t.R.Uint64()
	// twin: never stopped
	twinObs, C, env, err := c06Run(t, kind, seed, filepath.Join(t.Dir, "twin"), 0, false, 0)
	if err != nil {
		if strings.HasPrefix(err.Error(), "inconclusive") {
			t.Inconclusive("twin run: " + err.Error())
			return
		}
		if strings.HasPrefix(err.Error(), "violation") {
			t.Violate("crash-free-run-mismatch", "the scenario without any crash already disagrees with the ledger: "+err.Error(), env.fields())
			return
		}
		t.Fatalf("twin run of %s failed: %v", kind, err)
	}
	t.Count("commits_"+kind, int(C))
	t.Max("commits_in_scenario_"+kind, int(C))
	// which boundaries
	var ks []int64
	if kind == "S4" {
		// the block commits of the long chain are S1's subject: take the last maxK boundaries
		// (import of b, its rescan batches, the blocks arriving meanwhile)
		for k := C - int64(maxK) + 1; k <= C; k++ {
			if k >= 1 {
				ks = append(ks, k)
			}
		}
	} else if int(C) <= maxK {
		for k := int64(1); k <= C; k++ {
			ks = append(ks, k)
		}
	} else {
		seen := map[int64]bool{}
		add := func(k int64) {
			if k >= 1 && k <= C && !seen[k] {
				seen[k] = true
				ks = append(ks, k)
			}
		}
		for i := int64(1); i <= 5; i++ {
			add(i)
			add(C - i + 1)
		}
		for len(ks) < maxK {
			add(int64(t.R.Intn(int(C))) + 1)
		}
		sort.Slice(ks, func(i, j int) bool { return ks[i] < ks[j] })
	}
	exhaustive := int(C) <= maxK || kind == "S4" // S4: exhaustive over its import phase
	type job struct {
		k, second int64
		before    bool
	}
	var jobs []job
	for _, k := range ks {
		jobs = append(jobs, job{k, 0, true}, job{k, 0, false})
	}
	for i := 0; i < pairs; i++ {
		k1 := int64(t.R.Intn(int(C))) + 1
		jobs = append(jobs, job{k1, int64(t.R.Range(1, 6)), t.R.Bool()})
	}
	for i, j := range jobs {
		if t.Failed() {
			break
		}
		t.Eval(1)
		dir := filepath.Join(t.Dir, fmt.Sprintf("run%d", i))
		obs, _, e, err := c06Run(t, kind, seed, dir, j.k, j.before, j.second)
		side := map[bool]string{true: "before", false: "after"}[j.before]
		w := e.fields()
		w["scenario"] = kind
		w["crash_commit"] = j.k
		w["side"] = side
		w["second_crash_after"] = j.second
		w["commits_in_crash_free_run"] = C
		if err != nil {
			switch {
			case strings.HasPrefix(err.Error(), "inconclusive"):
				t.Inconclusive(fmt.Sprintf("%s k=%d %s: %v", kind, j.k, side, err))
			case strings.HasPrefix(err.Error(), "violation"):
				t.Violate("state-after-crash-differs:"+kind, fmt.Sprintf("scenario %s, crash %s commit %d of %d: %v", kind, side, j.k, C, err), w)
			default:
				t.Violate("operation-fails-after-crash:"+kind, fmt.Sprintf("scenario %s, crash %s commit %d of %d: %v", kind, side, j.k, C, err), w)
			}
			continue
		}
		if d := obs.Diff(twinObs); d != "" {
			t.Violate("state-after-crash-differs:"+kind, fmt.Sprintf("scenario %s, crash %s commit %d of %d: final observation differs from the never-stopped twin: %s", kind, side, j.k, C, d), w)
			continue
		}
		if e.crashes > 0 {
			t.Nontrivial(fmt.Sprintf("%s|v%d|k%d|%s|2nd%d", kind, variant, j.k, side, j.second))
			t.Count("crash_runs_"+kind, 1)
		} else {
			t.Count("crash_point_not_reached", 1)
		}
	}
	t.Observe("exhaustive_scenarios", fmt.Sprintf("%s/v%d:%v(C=%d,k=%d)", kind, variant, exhaustive, C, len(ks)))
	t.Sample(map[string]interface{}{"scenario": kind, "variant": variant, "commits": C, "boundaries_run": len(ks), "both_sides": true, "exhaustive": exhaustive, "log_head": tailStr(env.log, 12)})
}

type c06Plan struct {
	kind        string
	variants    int
	maxK, pairs int
}

var c06Plans = map[string][]c06Plan{
	"quick":    {{"S1", 6, 200, 2}, {"S2", 4, 200, 2}, {"S5", 4, 200, 2}, {"S6", 4, 200, 2}, {"S4", 2, 9, 0}},
	"thorough": {{"S1", 40, 2000, 20}, {"S2", 24, 2000, 12}, {"S5", 24, 2000, 12}, {"S6", 24, 2000, 12}, {"S4", 12, 16, 2}},
}

func init() {
	core.Register(&core.Property{
		ID:    "C06",
		Level: "fault_enumeration",
		Rule: "case = one deterministic scenario variant (S1 live following with reorgs, S2 orderly stop + node moves on incl. a reorg + start-up catch-up of 30-60 blocks, S5 background removal of one of two wallets while blocks arrive, S6 a block below the wallet's tip announced again and a start against a node that fell back 1-3 blocks and later attaches the same blocks again, S4 import of a wallet with history on a chain of > 1000 blocks — two rescan batches — for which the boundaries of the import phase are taken); a crash-free twin run counts the wallet-database commits C and records the final observation; then EVERY commit boundary k=1..C is taken as crash point on both sides " +
			"(before: commit k lost; after: commit k is the last one written), plus random double crashes: the interposer freezes the database at the boundary, the instance is stopped and abandoned, a new instance opens the same directory, unfinished API steps are repeated, the scenario continues. " +
			"Oracles: final observation == twin's and == reference ledger; the wallet must come up. distinct_nontrivial = distinct (scenario, variant, k, side, second crash) runs in which the crash point was actually reached",
		Assumptions: []string{"a crash is modelled as freeze-and-abandon at a commit boundary: a LevelDB batch write is the only way data reaches the files, so the files hold exactly the first k commits", "wallets are created from scenario-determined mnemonics so that twin and crash runs are comparable"},
		MaxProcs:    16,
		CaseTimeout: 1500 * time.Second,
		Cases: func(tier string, seed int64) int {
			n := 0
			for _, p := range c06Plans[tier] {
				n += p.variants
			}
			return n
		},
		Run: func(t *core.T) {
			i := t.Index
			for _, p := range c06Plans[t.Tier] {
				if i < p.variants {
					c06Case(t, p.kind, i, p.maxK, p.pairs)
					return
				}
				i -= p.variants
			}
		},
		Finish: func(m *core.Merged) {
			all := true
			if set, ok := m.Sets["exhaustive_scenarios"]; ok {
				for it := range set {
					if strings.Contains(it, ":false") {
						all = false
					}
				}
			}
			m.Exhaustive = &all
		},
	})
}

var _ = wire.MaxTxInSequenceNum
