package props

import (
	"fmt"
	"os"
	"path/filepath"
	"sort"
	"strings"
	"sync/atomic"
	"time"

	"github.com/massnetorg/mass-core/consensus"
	"github.com/massnetorg/mass-core/wire"
	"massnet.org/mass-wallet/masswallet/keystore"

	"verifharness/core"
	"verifharness/sim"
)

// C18 — a failed storage operation can be retried and leaves no trace.
// Fault enumeration: a deterministic scenario is run once fault-free while the storage interposer
// numbers every wallet-database call (begin, get, put, delete, prefix read, iterator, bucket
// lookup, commit) and tags it with the scenario step it belongs to; then for every call index i of
// the chosen steps the scenario is repeated with call i failing once (the interposer returns an
// error WITHOUT forwarding; for a commit nothing is written). User operations that report failure
// are repeated by the harness, handler/worker operations are retried by the wallet itself on the
// next tip / task round. Oracles: the end state must equal the fault-free twin and the ledger,
// every NewAddress must return the twin's address (no skipped or duplicated index), no phantom or
// duplicate wallet, and an operation may not report success when its effect is absent.

type c18Env struct {
	t         *core.T
	rs        *core.Rand
	wd        *sim.World
	gap       uint32
	failAt    int64 // global event index to fail (0 = none)
	failLen   int64 // number of consecutive calls that fail from failAt on (the repeated failing call)
	fires     int64
	counter   int64
	fired     int32
	apiActive int32
	hit       int32
	stepTag   atomic.Value // string
	// per-step event ranges recorded in the fault-free run
	ranges    map[string][2]int64
	order     []string
	mn        map[string]string
	pass      map[string]string
	ids       map[string]string
	addrs     []string // addresses returned by NewAddress steps, in order
	log       []string
	firedKind string
	firedStep string
}

func (e *c18Env) logf(f string, a ...interface{}) {
	if len(e.log) < 300 {
		e.log = append(e.log, fmt.Sprintf(f, a...))
	}
}

func (e *c18Env) hook(ev *sim.Event) error {
	if ev.Kind == "bucket" {
		// bucket lookups have no error return in the database interface (a read error can only
		// show up as "bucket not found"): they are not "reported storage errors"
		return nil
	}
	if ev.Role == "api" && atomic.LoadInt32(&e.apiActive) == 0 {
		// calls made by the harness's own polling (Wallets(), SyncedTo) are not part of the
		// operation under test and would make the numbering timing-dependent
		return nil
	}
	n := atomic.AddInt64(&e.counter, 1)
	if e.failAt > 0 && n >= e.failAt && n < e.failAt+e.failLen && atomic.LoadInt32(&e.fired) == 0 {
		if os.Getenv("VERIF_C18_ONLY") != "" {
			fmt.Fprintf(os.Stderr, "C18DBG inject #%d at call %d: %s %s role=%s step=%v\n", atomic.LoadInt64(&e.fires)+1, n, ev.Kind, ev.Bucket, ev.Role, e.stepTag.Load())
		}
		if atomic.AddInt64(&e.fires, 1) == 1 {
			atomic.StoreInt32(&e.hit, 1)
			e.firedKind = ev.Kind + " " + ev.Bucket
			if s, ok := e.stepTag.Load().(string); ok {
				e.firedStep = s
			}
		}
		return sim.ErrInjected
	}
	return nil
}

// nodeHook: the calls the wallet makes to the NODE's database (blocks, transactions, the script-hash
// index) are storage calls of the wallet's operations too; they share the numbering with the wallet
// database calls, so every one of them is failed once as well.
func (e *c18Env) nodeHook(method string) error {
	if sim.CallerRole() == "api" && atomic.LoadInt32(&e.apiActive) == 0 {
		return nil // the harness's own reads (ledger, observation)
	}
	n := atomic.AddInt64(&e.counter, 1)
	if e.failAt > 0 && n >= e.failAt && n < e.failAt+e.failLen && atomic.LoadInt32(&e.fired) == 0 {
		if os.Getenv("VERIF_C18_ONLY") != "" {
			fmt.Fprintf(os.Stderr, "C18DBG inject #%d at call %d: node-db %s step=%v\n", atomic.LoadInt64(&e.fires)+1, n, method, e.stepTag.Load())
		}
		if atomic.AddInt64(&e.fires, 1) == 1 {
			atomic.StoreInt32(&e.hit, 1)
			e.firedKind = "node-db:" + method
			if s, ok := e.stepTag.Load().(string); ok {
				e.firedStep = s
			}
		}
		return sim.ErrInjected
	}
	return nil
}

func (e *c18Env) begin(step string) int64 {
	e.stepTag.Store(step)
	return atomic.LoadInt64(&e.counter)
}

func (e *c18Env) end(step string, start int64) {
	if e.ranges != nil {
		if _, ok := e.ranges[step]; !ok {
			e.order = append(e.order, step)
		}
		e.ranges[step] = [2]int64{start + 1, atomic.LoadInt64(&e.counter)}
	}
}

// userOp runs an API operation; while it reports failure and a fault was injected during the
// attempt it is repeated. A failure of an attempt during which storage worked is a violation.
func (e *c18Env) userOp(step string, fn func() error) error {
	start := e.begin(step)
	atomic.StoreInt32(&e.apiActive, 1)
	defer func() {
		atomic.StoreInt32(&e.apiActive, 0)
		e.end(step, start)
	}()
	var first error
	for attempt := 0; attempt < 12; attempt++ {
		before := atomic.LoadInt64(&e.fires)
		err := fn()
		if err == nil {
			return nil
		}
		if first == nil {
			first = err
		}
		if atomic.LoadInt64(&e.fires) == before {
			if attempt == 0 {
				return fmt.Errorf("violation: %s fails although no storage call of it failed: %v", step, err)
			}
			return fmt.Errorf("violation: %s fails again after the storage fault is gone: %v (first failure: %v)", step, err, first)
		}
		e.logf("%s failed: %v -- repeating", step, err)
		// an operation that reported failure must not go on in the background: whatever it may have
		// queued runs before the repetition
		e.wd.W.WorkerParked(20 * time.Second)
		e.wd.W.WorkerIdle(20 * time.Second)
		e.wd.W.Quiesce(20 * time.Second)
	}
	return fmt.Errorf("violation: %s still fails after 12 attempts (first failure: %v)", step, first)
}

func (e *c18Env) settle(step string, start int64) error {
	if !e.wd.W.Quiesce(40 * time.Second) {
		return fmt.Errorf("inconclusive: handler not idle after %s", step)
	}
	e.end(step, start)
	return nil
}

func (e *c18Env) importWallet(label string) error {
	if _, ok := e.mn[label]; !ok {
		m, err := keystore.NewMnemonic(e.rs.Bytes(16))
		if err != nil {
			return err
		}
		e.mn[label], e.pass[label] = m, "c18pass"+label
	}
	err := e.userOp("import "+label, func() error {
		sum, err := e.wd.W.W.ImportWalletWithMnemonic(&keystore.WalletParams{Mnemonic: e.mn[label], PrivatePassphrase: []byte(e.pass[label]), Remarks: label, AddressGapLimit: e.gap})
		if err != nil {
			return err
		}
		e.ids[label] = sum.WalletID
		return nil
	})
	if err != nil {
		return err
	}
	// the background import task (retried by the worker itself)
	start := e.begin("import-task " + label)
	ok := e.wd.W.WorkerIdle(40 * time.Second)
	e.end("import-task "+label, start)
	if !ok {
		return fmt.Errorf("violation: the import of %s never finishes after a storage fault", label)
	}
	return nil
}

func (e *c18Env) newAddress(label string, n int) error {
	for i := 0; i < n; i++ {
		step := fmt.Sprintf("newaddress %s #%d", label, len(e.addrs))
		var addr string
		err := e.userOp(step, func() error {
			if _, err := e.wd.W.W.UseWallet(e.ids[label]); err != nil {
				return err
			}
			a, err := e.wd.W.W.NewAddress(0)
			addr = a
			return err
		})
		if err != nil {
			return err
		}
		e.addrs = append(e.addrs, addr)
	}
	return nil
}

func (e *c18Env) keys(labels ...string) error {
	e.wd.Keys = nil
	for _, l := range labels {
		k := &sim.WalletKeys{ID: e.ids[l], Pass: e.pass[l], Mnemonic: e.mn[l], Owned: map[[32]byte]bool{}, Staking: map[[32]byte]bool{}}
		if _, err := e.wd.W.W.UseWallet(k.ID); err != nil {
			return fmt.Errorf("violation: wallet %s cannot be selected: %v", l, err)
		}
		list, err := e.wd.W.W.GetAddresses(0)
		if err != nil {
			return err
		}
		var as []string
		for _, a := range list {
			as = append(as, a.Address)
		}
		sort.Strings(as)
		for _, a := range as {
			if h, err := sim.HashOfAddress(a); err == nil {
				k.Std = append(k.Std, a)
				k.Hashes = append(k.Hashes, h)
				k.Owned[h] = true
			}
		}
		e.wd.Keys = append(e.wd.Keys, k)
	}
	return nil
}

func (e *c18Env) block(step string, fork bool) error {
	start := e.begin(step)
	old := e.wd.R
	e.wd.R = e.rs
	defer func() { e.wd.R = old }()
	if fork && e.wd.N.Height() > 3 {
		d := e.rs.Range(1, 2)
		nb, _, err := e.wd.Fork(d, d+e.rs.Range(0, 1), 1)
		if err != nil {
			return err
		}
		if nb != nil {
			e.wd.W.Deliver(nb)
		}
	} else {
		b, err := e.wd.Extend(e.rs.Range(1, 3))
		if err != nil {
			return err
		}
		e.wd.W.Deliver(b)
	}
	return e.settle(step, start)
}

// pendingAndSettle: two unconfirmed spends of wallet coins are delivered; the next block confirms
// one as it is and double-spends the other (the pending-input index is read, written and cleaned).
func (e *c18Env) pendingAndSettle(step string) error {
	start := e.begin(step)
	old := e.wd.R
	e.wd.R = e.rs
	defer func() { e.wd.R = old }()
	v, err := sim.ViewOfChain(e.wd.N.BestChain())
	if err != nil {
		return err
	}
	owned := e.wd.AllOwned()
	var coins []*sim.Out
	for _, o := range v.SortedOuts() {
		if _, mine := owned[o.Hash]; mine && o.HasHash && !o.Spent && o.Class == sim.ClassStd && v.Mature(o) && o.Value > 200000 {
			coins = append(coins, o)
		}
	}
	sort.Slice(coins, func(i, j int) bool {
		if coins[i].OP.Hash != coins[j].OP.Hash {
			return coins[i].OP.Hash.String() < coins[j].OP.Hash.String()
		}
		return coins[i].OP.Index < coins[j].OP.Index
	})
	// the second input of each pending transaction is a coin of wallet a (the wallet that stays and
	// is observed at the end): put a's coins at the odd positions
	var aCoins, other []*sim.Out
	for _, o := range coins {
		if len(e.wd.Keys) > 0 && e.wd.Keys[0].Owned[o.Hash] {
			aCoins = append(aCoins, o)
		} else {
			other = append(other, o)
		}
	}
	if len(aCoins) >= 2 {
		first := append(append([]*sim.Out{}, other...), aCoins[2:]...)
		if len(first) >= 2 {
			coins = []*sim.Out{first[0], aCoins[0], first[1], aCoins[1]}
		} else if len(first) == 1 {
			coins = []*sim.Out{first[0], aCoins[0]}
		}
	}
	var carry []*wire.MsgTx
	avoid := map[wire.OutPoint]bool{}
	// each pending transaction spends two wallet coins, so that a wrongly kept pending record or
	// pending-input entry shows on the second coin (which stays or becomes unspent again)
	if len(coins) >= 2 {
		c, d := coins[0], coins[1]
		p1 := sim.Spend([]wire.OutPoint{c.OP, d.OP}, nil, []*wire.TxOut{wire.NewTxOut(c.Value+d.Value-50000, sim.P2WSH(e.wd.StrangerPub()))}, e.rs.Uint64()|1)
		e.wd.W.DeliverTx(p1)
		carry = append(carry, p1) // confirmed as it is
		avoid[c.OP], avoid[d.OP] = true, true
	}
	if len(coins) >= 4 {
		c, d := coins[2], coins[3]
		p2 := sim.Spend([]wire.OutPoint{c.OP, d.OP}, nil, []*wire.TxOut{wire.NewTxOut(c.Value+d.Value-60000, sim.P2WSH(e.wd.StrangerPub()))}, e.rs.Uint64()|1)
		e.wd.W.DeliverTx(p2)
		e.wd.Logf("pending p2 %s spends %s:%d and %s:%d", p2.TxHash().String()[:10], c.OP.Hash.String()[:10], c.OP.Index, d.OP.Hash.String()[:10], d.OP.Index)
		conflict := sim.Spend([]wire.OutPoint{c.OP}, nil, []*wire.TxOut{wire.NewTxOut(c.Value-70000, sim.P2WSH(e.wd.StrangerPub()))}, e.rs.Uint64()|1)
		e.wd.Logf("conflict %s spends %s:%d", conflict.TxHash().String()[:10], c.OP.Hash.String()[:10], c.OP.Index)
		carry = append(carry, conflict) // double-spends the pending one through its first input only
		// the second input stays unspent for the rest of the history: its pending-spend flag at the end
		// tells whether the double-spent transaction was purged
		if e.wd.Keep == nil {
			e.wd.Keep = map[wire.OutPoint]bool{}
		}
		e.wd.Keep[d.OP] = true
		avoid[c.OP], avoid[d.OP] = true, true
	}
	e.wd.W.Quiesce(40 * time.Second)
	b, err := e.wd.BuildBlockAvoiding(e.wd.N.Tip(), carry, e.rs.Range(0, 2), avoid)
	if err != nil {
		return err
	}
	if err := e.wd.N.Extend(b); err != nil {
		return err
	}
	e.wd.Logf("extend h=%d %s (confirms one pending spend, double-spends another)", b.Height, b.Hash.String()[:10])
	e.wd.W.Deliver(b)
	return e.settle(step, start)
}

func (e *c18Env) scenario() error {
	if err := e.importWallet("a"); err != nil {
		return err
	}
	if err := e.importWallet("b"); err != nil {
		return err
	}
	if err := e.newAddress("a", 2); err != nil {
		return err
	}
	if err := e.newAddress("b", 1); err != nil {
		return err
	}
	if err := e.keys("a", "b"); err != nil {
		return err
	}
	for i := 0; i < 9; i++ {
		if err := e.block(fmt.Sprintf("block %d", i), i == 5 || i == 8); err != nil {
			return err
		}
		// (two more blocks follow before the next reorganisation of depth ≤ 2: the block that settles
		// the pending transactions is never abandoned - what a wallet knows from a block that was
		// abandoned later is not comparable between the runs, see DESIGN.md Corrections)
		if i == 2 || i == 5 {
			if err := e.pendingAndSettle(fmt.Sprintf("pending %d", i)); err != nil {
				return err
			}
		}
	}
	// a freshly created wallet (random entropy: only its existence and uniqueness are compared)
	var created string
	if err := e.userOp("create", func() error {
		id, _, _, err := e.wd.W.W.CreateWallet("c18created1", "created", 128)
		created = id
		return err
	}); err != nil {
		return err
	}
	if err := e.newAddress("a", 1); err != nil {
		return err
	}
	// The user removes a wallet when the wallet shows it is synced: two tips without any wallet
	// transaction let the follower apply what it could not apply while a fault burst was active. (A
	// removal accepted while blocks that pay or spend that wallet are still unapplied is a different
	// schedule - the blocks are then applied without the removed wallet, also in a fault-free run - not
	// a different outcome of the same schedule; see DESIGN.md Corrections.)
	for i := 0; i < 2; i++ {
		step := fmt.Sprintf("barrier %d", i)
		start := e.begin(step)
		cb := sim.Coinbase(e.wd.N.Height()+1, e.rs.Uint64(), []*wire.TxOut{wire.NewTxOut(1, sim.P2WSH(e.wd.StrangerPub()))})
		b := e.wd.N.NewBlock(e.wd.N.Tip(), []*wire.MsgTx{cb})
		if err := e.wd.N.Extend(b); err != nil {
			return err
		}
		e.wd.Logf("extend h=%d %s (empty barrier block)", b.Height, b.Hash.String()[:10])
		e.wd.W.Deliver(b)
		if err := e.settle(step, start); err != nil {
			return err
		}
	}
	// removal of b while blocks arrive
	if err := e.userOp("remove b", func() error { return e.wd.W.W.RemoveWallet(e.ids["b"], e.pass["b"]) }); err != nil {
		return err
	}
	start := e.begin("remove-task b")
	for i := 0; i < 2; i++ {
		old := e.wd.R
		e.wd.R = e.rs
		b, err := e.wd.Extend(1)
		e.wd.R = old
		if err != nil {
			return err
		}
		e.wd.W.Deliver(b)
	}
	deadline := time.Now().Add(40 * time.Second)
	for {
		ws, err := e.wd.W.W.Wallets()
		gone := err == nil
		if err == nil {
			for _, s := range ws {
				if s.WalletID == e.ids["b"] {
					gone = false
				}
			}
		}
		if gone {
			break
		}
		if time.Now().After(deadline) {
			e.end("remove-task b", start)
			return fmt.Errorf("violation: the removal never finishes after a storage fault")
		}
		time.Sleep(time.Millisecond)
	}
	if err := e.settle("remove-task b", start); err != nil {
		return err
	}
	e.wd.Keys = e.wd.Keys[:1]
	// two more blocks flush anything the handler could not apply while the fault was active
	for i := 0; i < 2; i++ {
		if err := e.block(fmt.Sprintf("flush %d", i), false); err != nil {
			return err
		}
	}
	// two more blocks with fault injection switched off: whatever the handler could not apply
	// while the last fault was active is retried with these tips
	atomic.StoreInt32(&e.fired, 1)
	for i := 0; i < 2; i++ {
		if err := e.block(fmt.Sprintf("settle %d", i), false); err != nil {
			return err
		}
	}
	// wallet list: a, created — exactly once each
	ws, err := e.wd.W.W.Wallets()
	if err != nil {
		return err
	}
	cnt := map[string]int{}
	for _, s := range ws {
		cnt[s.WalletID]++
	}
	if len(ws) != 2 || cnt[e.ids["a"]] != 1 || cnt[created] != 1 {
		var l []string
		for _, s := range ws {
			l = append(l, s.WalletID[:10]+"("+s.Remarks+")")
		}
		return fmt.Errorf("violation: wallet list is %v; expected exactly the imported wallet a and the created one", l)
	}
	if _, err := e.wd.W.W.UseWallet(created); err != nil {
		return fmt.Errorf("violation: the created wallet cannot be selected: %v", err)
	}
	if _, err := e.wd.W.W.NewAddress(0); err != nil {
		return fmt.Errorf("violation: the created wallet cannot issue an address: %v", err)
	}
	return nil
}

func c18Run(t *core.T, seed uint64, dir string, failAt, failLen int64, record bool) (*sim.Obs, *c18Env, error) {
	sim.InitProcess(filepath.Join(filepath.Dir(t.Dir), "log"))
	sim.ResetFatalEvents()
	restoreConsensus()
	consensus.CoinbaseMaturity = 3
	defer restoreConsensus()
	e := &c18Env{t: t, rs: core.NewRand(seed), gap: 20, failAt: failAt, failLen: failLen, mn: map[string]string{}, pass: map[string]string{}, ids: map[string]string{}}
	if record {
		e.ranges = map[string][2]int64{}
	}
	n, err := sim.NewNode(filepath.Join(dir, "node"))
	if err != nil {
		return nil, e, fmt.Errorf("harness: %v", err)
	}
	defer n.Close()
	w, err := sim.OpenWallet(n, filepath.Join(dir, "wallet"), sim.NewConfig(e.gap))
	if err != nil {
		return nil, e, fmt.Errorf("harness: %v", err)
	}
	if err := w.Start(); err != nil {
		return nil, e, fmt.Errorf("harness: start: %v", err)
	}
	// NoDrop: a transaction the wallet only ever saw in a block that was abandoned later is known to
	// the twin (as pending) and unknown to a run whose fault made it skip that block; the property
	// speaks of blocks of the chain, so every such transaction is resolved on the new branch
	e.wd = &sim.World{T: t, R: e.rs, N: n, W: w, NoDrop: true}
	e.wd.StrangerPub()
	w.DB.SetHook(e.hook)
	n.Wrap.SetHook(e.nodeHook)
	serr := e.scenario()
	w.DB.SetHook(nil)
	n.Wrap.SetHook(nil)
	var obs *sim.Obs
	if serr == nil {
		if fe := sim.FatalEvents(); len(fe) > 0 {
			serr = fmt.Errorf("violation: a follower goroutine died: %s", firstLineOf(fe[0]))
		}
	}
	if serr == nil {
		obs = w.Observe([]string{e.ids["a"]})
		obs.Wallets = nil // the created wallet has a fresh random id; the list is checked in scenario()
		if d := e.wd.CheckLedger(sim.CompareOpts{Histories: true, AddrBal: true}); len(d) > 0 {
			var lines []string
			for id, dd := range d {
				for _, x := range dd {
					lines = append(lines, id+": "+x)
				}
			}
			sort.Strings(lines)
			serr = fmt.Errorf("violation: ledger: %s", strings.Join(lines, " | "))
		}
	}
	if os.Getenv("VERIF_C18_ONLY") != "" {
		fmt.Fprintf(os.Stderr, "C18DBG world ops:\nC18DBG   %s\n", strings.Join(tailStr(e.wd.Ops, 40), "\nC18DBG   "))
		for _, path := range [][]string{{"u", "mi"}, {"t", "m"}} {
			if raw, err := w.RawBucket(path...); err == nil {
				for k, v := range raw {
					fmt.Fprintf(os.Stderr, "C18DBG raw %v: %x -> %x\n", path, []byte(k), firstNBytes(v, 40))
				}
			} else {
				fmt.Fprintf(os.Stderr, "C18DBG raw %v: %v\n", path, err)
			}
		}
	}
	if !w.Stop(30*time.Second) && serr == nil {
		serr = fmt.Errorf("inconclusive: Stop did not return")
	}
	return obs, e, serr
}

func c18Case(t *core.T, steps []string, maxPerStep int) {
	thoroughTier := t.Tier == "thorough"
	seed := t.R.Uint64()
	twinObs, twin, err := c18Run(t, seed, filepath.Join(t.Dir, "twin"), 0, 1, true)
	if err != nil {
		if strings.HasPrefix(err.Error(), "inconclusive") {
			t.Inconclusive("twin: " + err.Error())
			return
		}
		t.Violate("fault-free-run-fails", "the scenario without any fault: "+err.Error(), map[string]interface{}{"log": twin.log})
		return
	}
	total := atomic.LoadInt64(&twin.counter)
	t.Max("db_calls_in_scenario", int(total))
	// choose call indexes
	type job struct {
		i    int64
		step string
		n    int64 // consecutive failing calls
	}
	var jobs []job
	exhaustive := true
	for _, st := range twin.order {
		sel := false
		for _, p := range steps {
			if strings.HasPrefix(st, p) {
				sel = true
			}
		}
		if !sel {
			continue
		}
		r := twin.ranges[st]
		n := r[1] - r[0] + 1
		if n <= 0 {
			continue
		}
		if int(n) <= maxPerStep {
			for i := r[0]; i <= r[1]; i++ {
				jobs = append(jobs, job{i, st, 1})
			}
		} else {
			exhaustive = false
			seen := map[int64]bool{}
			for k := int64(0); k < 4; k++ {
				seen[r[0]+k], seen[r[1]-k] = true, true
			}
			for len(seen) < maxPerStep {
				seen[r[0]+int64(t.R.Intn(int(n)))] = true
			}
			var l []int64
			for i := range seen {
				l = append(l, i)
			}
			sort.Slice(l, func(a, b int) bool { return l[a] < l[b] })
			for _, i := range l {
				jobs = append(jobs, job{i, st, 1})
			}
		}
		t.Observe("calls_per_step", fmt.Sprintf("%s=%d", strings.Fields(st)[0], n))
	}
	// the repeated failing call: the same indexes with 3 (thorough: also 2 and 6) consecutive failures;
	// quick runs a seeded quarter of them
	for _, j := range append([]job(nil), jobs...) {
		if thoroughTier {
			jobs = append(jobs, job{j.i, j.step, 2}, job{j.i, j.step, 3}, job{j.i, j.step, 6})
		} else if t.R.Intn(4) == 0 {
			jobs = append(jobs, job{j.i, j.step, 3})
		}
	}
	if only := os.Getenv("VERIF_C18_ONLY"); only != "" {
		// debugging aid: "index:consecutive" runs just that fault
		var oi, on int64
		fmt.Sscanf(only, "%d:%d", &oi, &on)
		jobs = []job{{oi, "debug", on}}
	}
	for ji, j := range jobs {
		if t.Failed() {
			break
		}
		t.Eval(1)
		obs, e, err := c18Run(t, seed, filepath.Join(t.Dir, fmt.Sprintf("run%d", ji)), j.i, j.n, false)
		w := map[string]interface{}{"failed_call_index": j.i, "consecutive_failures": j.n, "step_in_fault_free_run": j.step, "failed_call": e.firedKind, "step_when_fired": e.firedStep, "log": e.log, "world_ops_tail": tailStr(e.wd.Ops, 30)}
		kind := strings.Fields(j.step)[0]
		if os.Getenv("VERIF_C18_ONLY") != "" || os.Getenv("VERIF_C18_TRACE") != "" {
			fmt.Fprintf(os.Stderr, "C18DBG fault %d x%d fired at %q during %q err=%v fires=%d\n", j.i, j.n, e.firedKind, e.firedStep, err, atomic.LoadInt64(&e.fires))
		}
		if err != nil {
			if strings.HasPrefix(err.Error(), "inconclusive") {
				t.Inconclusive(fmt.Sprintf("call %d (%s): %v", j.i, j.step, err))
				continue
			}
			t.Violate("state-after-fault-differs:"+kind, fmt.Sprintf("storage call %d (%s, during '%s') failed (%d×): %v", j.i, e.firedKind, j.step, j.n, err), w)
			continue
		}
		if atomic.LoadInt32(&e.hit) == 0 {
			t.Count("fault_not_reached", 1)
			continue
		}
		if strings.Join(e.addrs, ",") != strings.Join(twin.addrs, ",") {
			t.Violate("address-index-skipped-or-duplicated", fmt.Sprintf("storage call %d (%s, during '%s') failed (%d×): NewAddress sequence %v differs from the fault-free run %v", j.i, e.firedKind, j.step, j.n, shortAddrs(e.addrs), shortAddrs(twin.addrs)), w)
			continue
		}
		if d := obs.Diff(twinObs); d != "" && os.Getenv("VERIF_C18_ONLY") != "" {
			for _, id := range []string{e.ids["a"]} {
				a, b := obs.W[id], twinObs.W[id]
				if a != nil && b != nil {
					for i := range a.Utxos {
						if i < len(b.Utxos) && a.Utxos[i] != b.Utxos[i] {
							fmt.Fprintf(os.Stderr, "C18DBG utxo differs: fault-run %+v\nC18DBG               twin      %+v\n", a.Utxos[i], b.Utxos[i])
						}
					}
					fmt.Fprintf(os.Stderr, "C18DBG utxo counts %d vs %d\n", len(a.Utxos), len(b.Utxos))
				}
			}
			if raw, err := e.wd.W.RawBucket("u", "mi"); err == nil {
				for k, v := range raw {
					fmt.Fprintf(os.Stderr, "C18DBG pending-input entry: outpoint %x -> %x\n", []byte(k), v)
				}
			}
			if raw, err := e.wd.W.RawBucket("t", "m"); err == nil {
				for k := range raw {
					fmt.Fprintf(os.Stderr, "C18DBG pending record in fault run: %x\n", []byte(k))
				}
			}
			fmt.Fprintf(os.Stderr, "C18DBG ops: %s\n", strings.Join(tailStr(e.wd.Ops, 16), "\nC18DBG      "))
		}
		if d := obs.Diff(twinObs); d != "" {
			t.Violate("state-after-fault-differs:"+kind, fmt.Sprintf("storage call %d (%s, during '%s') failed (%d×): final observation differs from the fault-free twin: %s", j.i, e.firedKind, j.step, j.n, d), w)
			continue
		}
		t.Nontrivial(fmt.Sprintf("%s|%d|%s|x%d", j.step, j.i, e.firedKind, j.n))
		t.Count(fmt.Sprintf("runs_with_%d_consecutive_failures", j.n), 1)
		t.Count("faults_"+kind, 1)
		t.Observe("failed_call_kinds", strings.Fields(e.firedKind)[0])
	}
	t.Observe("exhaustive_steps", fmt.Sprintf("%v:%v", steps, exhaustive))
	t.Sample(map[string]interface{}{"steps_enumerated": steps, "db_calls_total": total, "call_indexes_run": len(jobs), "exhaustive": exhaustive, "twin_log": tailStr(twin.log, 6)})
}

func shortAddrs(a []string) []string {
	var o []string
	for _, x := range a {
		if len(x) > 12 {
			x = x[:12]
		}
		o = append(o, x)
	}
	return o
}

var c18Groups = [][]string{
	{"import a"}, {"import b"}, {"import-task"}, {"newaddress"}, {"create"}, {"remove b"}, {"remove-task"},
	{"block 0", "block 1"}, {"block 2", "block 3"}, {"block 4", "block 5"}, {"block 6", "block 7"}, {"block 8"}, {"flush"}, {"pending"},
}

func init() {
	limits := map[string]int{"quick": 70, "thorough": 100000}
	core.Register(&core.Property{
		ID:    "C18",
		Level: "fault_enumeration",
		Rule: "case = one group of steps of a deterministic scenario (import of two wallets by mnemonic incl. their background import tasks, three NewAddress calls, nine blocks incl. two reorgs and two rounds of unconfirmed wallet spends of which the next block confirms one and double-spends the other, CreateWallet, another NewAddress, RemoveWallet + background removal while blocks arrive, two flush blocks). A fault-free twin numbers every wallet-database call and maps it to its step; " +
			"for the group's steps every call index (quick: all when ≤70 per step, else first/last four + seeded sample; thorough: all, in four scenarios per group) is failed once without forwarding, and again as a repeated failing call (3 consecutive calls from that index on for a seeded quarter of the indexes; thorough: 2, 3 and 6 for all); user operations that report failure are repeated while a fault was injected during the attempt, handler/worker operations retry by themselves. " +
			"Oracles: an attempt during which no call failed succeeds; every NewAddress returns the twin's address; wallet list has exactly the expected wallets once; final observation == twin == ledger; no follower death. distinct_nontrivial = distinct (step, call index, call kind) runs in which the fault was actually hit",
		Assumptions: []string{"a storage fault is an error returned by the database interface without performing the call (for commit: nothing written); real I/O errors that LevelDB latches until reopen are out of scope", "CreateWallet uses fresh entropy: only existence, uniqueness and usability of the created wallet are compared"},
		CaseTimeout: 1500 * time.Second,
		Cases: func(tier string, seed int64) int {
			if tier == "thorough" {
				return 4 * len(c18Groups) // four scenarios (different seeds) per step group
			}
			return len(c18Groups)
		},
		Run: func(t *core.T) {
			g := c18Groups[t.Index%len(c18Groups)]
			lim := limits[t.Tier]
			if g[0] == "pending" {
				lim = 100000 // the pending-transaction steps are short: every index also in the quick tier
			}
			c18Case(t, g, lim)
		},
		Finish: func(m *core.Merged) {
			all := true
			if set, ok := m.Sets["exhaustive_steps"]; ok {
				for it := range set {
					if strings.HasSuffix(it, ":false") {
						all = false
					}
				}
			}
			m.Exhaustive = &all
		},
	})
}

func firstNBytes(b []byte, n int) []byte {
	if len(b) > n {
		return b[:n]
	}
	return b
}
