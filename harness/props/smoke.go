package props

import (
	"fmt"
	"path/filepath"
	"time"

	"github.com/massnetorg/mass-core/consensus"
	"github.com/massnetorg/mass-core/massutil"
	"github.com/massnetorg/mass-core/wire"
	"massnet.org/mass-wallet/config"

	"verifharness/core"
	"verifharness/sim"
)

func init() {
	core.Register(&core.Property{ID: "SMOKE", Level: "exploration", Rule: "smoke", Cases: func(string, int64) int { return 1 },
		Run: func(t *core.T) {
			sim.InitProcess(filepath.Join(t.Dir, "log"))
			consensus.CoinbaseMaturity = 3
			n, err := sim.NewNode(filepath.Join(t.Dir, "node"))
			if err != nil {
				t.Fatalf("node: %v", err)
			}
			defer n.Close()
			w, err := sim.OpenWallet(n, filepath.Join(t.Dir, "wallet"), sim.NewConfig(0))
			if err != nil {
				t.Fatalf("wallet: %v", err)
			}
			if err := w.Start(); err != nil {
				t.Fatalf("start: %v", err)
			}
			id, mn, _, err := w.W.CreateWallet("passw0rd1", "r", 128)
			fmt.Println("wallet", id, mn, err)
			w.W.UseWallet(id)
			addr, err := w.W.NewAddress(0)
			fmt.Println("addr", addr, err)
			a, _ := massutil.DecodeAddress(addr, config.ChainParams)
			var h [32]byte
			copy(h[:], a.ScriptAddress())
			owned := map[[32]byte]bool{h: true}
			t0 := time.Now()
			var blocks []*sim.Block
			for i := 0; i < 6; i++ {
				cb := sim.Coinbase(uint64(i+1), uint64(i), []*wire.TxOut{wire.NewTxOut(int64(1000000*(i+1)), sim.P2WSH(h))})
				b := n.NewBlock(n.Tip(), []*wire.MsgTx{cb})
				if err := n.Extend(b); err != nil {
					t.Fatalf("extend: %v", err)
				}
				blocks = append(blocks, b)
				w.Deliver(b)
				if !w.Quiesce(5 * time.Second) {
					t.Fatalf("no quiesce")
				}
			}
			fmt.Println("6 blocks in", time.Since(t0))
			o := w.Observe([]string{id})
			v, _ := sim.ViewOfChain(n.BestChain())
			e := v.Expect(owned)
			fmt.Printf("obs %+v\n", *o.W[id])
			fmt.Println("diff:", e.Compare(o.W[id], sim.CompareOpts{Histories: true, AddrBal: true}))
			// reorg: fork 2 below, 3 new blocks
			parent := blocks[3]
			var nb *sim.Block
			for i := 0; i < 3; i++ {
				cb := sim.Coinbase(parent.Height+1, uint64(100+i), []*wire.TxOut{wire.NewTxOut(int64(7+i), sim.P2WSH(h))})
				nb = n.NewBlock(parent, []*wire.MsgTx{cb})
				parent = nb
			}
			d, a2, err := n.Reorganize(nb)
			fmt.Println("reorg", d, a2, err)
			w.Deliver(nb)
			fmt.Println("quiesce", w.Quiesce(5*time.Second))
			o = w.Observe([]string{id})
			v, _ = sim.ViewOfChain(n.BestChain())
			e = v.Expect(owned)
			fmt.Printf("obs synced=%d %+v\n", o.SyncedTo, o.W[id].Bal)
			fmt.Println("diff:", e.Compare(o.W[id], sim.CompareOpts{Histories: true, AddrBal: true}))
			fmt.Println("stop", w.Stop(5*time.Second), "fatal", sim.FatalEvents())
		}})
}
