package props

import (
	"bufio"
	"bytes"
	"crypto/hmac"
	"crypto/sha256"
	"crypto/sha512"
	"encoding/binary"
	"encoding/hex"
	"encoding/json"
	"fmt"
	"math/big"
	"os"
	"os/exec"
	"path/filepath"
	"strings"

	"github.com/btcsuite/btcd/btcec"
	"golang.org/x/crypto/ripemd160"
	"massnet.org/mass-wallet/config"
	"massnet.org/mass-wallet/masswallet/keystore/hdkeychain"

	"verifharness/core"
)

// C14 — hierarchical derivation is exactly BIP-32.
// Reference: fixed-width (32-byte) scalars, HMAC-SHA512 from the standard library, point
// addition through btcec's curve (trusted base), own base58check. Cross-checked at run time
// against tools/bip32_ref.py (pure python curve arithmetic, anchored on BIP-32 test vector 1).

type refXKey struct {
	Priv    [32]byte
	HasPriv bool
	Pub     [33]byte
	CC      [32]byte
	Depth   uint8
	FP      [4]byte
	CN      uint32
}

var curveN = btcec.S256().N

func refPubOf(priv []byte) [33]byte {
	x, y := btcec.S256().ScalarBaseMult(priv)
	var out [33]byte
	out[0] = 2 + byte(y.Bit(0))
	xb := x.Bytes()
	copy(out[33-len(xb):], xb)
	return out
}

func refHash160(b []byte) []byte {
	s := sha256.Sum256(b)
	r := ripemd160.New()
	r.Write(s[:])
	return r.Sum(nil)
}

func refMaster(seed []byte) (*refXKey, bool) {
	m := hmac.New(sha512.New, []byte("Bitcoin seed"))
	m.Write(seed)
	I := m.Sum(nil)
	k := new(big.Int).SetBytes(I[:32])
	if k.Sign() == 0 || k.Cmp(curveN) >= 0 {
		return nil, false
	}
	r := &refXKey{HasPriv: true}
	copy(r.Priv[:], I[:32])
	copy(r.CC[:], I[32:])
	r.Pub = refPubOf(r.Priv[:])
	return r, true
}

func refCKDPriv(p *refXKey, i uint32) (*refXKey, bool) {
	data := make([]byte, 37)
	if i >= 0x80000000 {
		copy(data[1:], p.Priv[:])
	} else {
		copy(data, p.Pub[:])
	}
	binary.BigEndian.PutUint32(data[33:], i)
	m := hmac.New(sha512.New, p.CC[:])
	m.Write(data)
	I := m.Sum(nil)
	il := new(big.Int).SetBytes(I[:32])
	if il.Cmp(curveN) >= 0 {
		return nil, false
	}
	k := new(big.Int).Add(il, new(big.Int).SetBytes(p.Priv[:]))
	k.Mod(k, curveN)
	if k.Sign() == 0 {
		return nil, false
	}
	c := &refXKey{HasPriv: true, Depth: p.Depth + 1, CN: i}
	kb := k.Bytes()
	copy(c.Priv[32-len(kb):], kb)
	copy(c.CC[:], I[32:])
	copy(c.FP[:], refHash160(p.Pub[:])[:4])
	c.Pub = refPubOf(c.Priv[:])
	return c, true
}

func refCKDPub(p *refXKey, i uint32) (*refXKey, bool) {
	if i >= 0x80000000 {
		return nil, false
	}
	data := make([]byte, 37)
	copy(data, p.Pub[:])
	binary.BigEndian.PutUint32(data[33:], i)
	m := hmac.New(sha512.New, p.CC[:])
	m.Write(data)
	I := m.Sum(nil)
	il := new(big.Int).SetBytes(I[:32])
	if il.Cmp(curveN) >= 0 || il.Sign() == 0 {
		return nil, false
	}
	ilx, ily := btcec.S256().ScalarBaseMult(I[:32])
	px, py := refDecompress(p.Pub[:])
	if px == nil {
		return nil, false
	}
	cx, cy := btcec.S256().Add(ilx, ily, px, py)
	c := &refXKey{Depth: p.Depth + 1, CN: i}
	c.Pub[0] = 2 + byte(cy.Bit(0))
	xb := cx.Bytes()
	copy(c.Pub[33-len(xb):], xb)
	copy(c.CC[:], I[32:])
	copy(c.FP[:], refHash160(p.Pub[:])[:4])
	return c, true
}

// refDecompress: own square root (p ≡ 3 mod 4), independent of btcec.ParsePubKey.
func refDecompress(pub []byte) (*big.Int, *big.Int) {
	if len(pub) != 33 || (pub[0] != 2 && pub[0] != 3) {
		return nil, nil
	}
	P := btcec.S256().P
	x := new(big.Int).SetBytes(pub[1:])
	if x.Cmp(P) >= 0 {
		return nil, nil
	}
	y2 := new(big.Int).Exp(x, big.NewInt(3), P)
	y2.Add(y2, big.NewInt(7))
	y2.Mod(y2, P)
	e := new(big.Int).Add(P, big.NewInt(1))
	e.Rsh(e, 2)
	y := new(big.Int).Exp(y2, e, P)
	if new(big.Int).Exp(y, big.NewInt(2), P).Cmp(y2) != 0 {
		return nil, nil
	}
	if byte(y.Bit(0)) != pub[0]&1 {
		y.Sub(P, y)
	}
	return x, y
}

const b58Alphabet = "123456789ABCDEFGHJKLMNPQRSTUVWXYZabcdefghijkmnopqrstuvwxyz"

func refBase58(b []byte) string {
	x := new(big.Int).SetBytes(b)
	radix := big.NewInt(58)
	mod := new(big.Int)
	var out []byte
	for x.Sign() > 0 {
		x.DivMod(x, radix, mod)
		out = append(out, b58Alphabet[mod.Int64()])
	}
	for _, c := range b {
		if c != 0 {
			break
		}
		out = append(out, b58Alphabet[0])
	}
	for i, j := 0, len(out)-1; i < j; i, j = i+1, j-1 {
		out[i], out[j] = out[j], out[i]
	}
	return string(out)
}

func refCheck58(payload []byte) string {
	h1 := sha256.Sum256(payload)
	h2 := sha256.Sum256(h1[:])
	return refBase58(append(append([]byte{}, payload...), h2[:4]...))
}

func (k *refXKey) payload(private bool) []byte {
	p := make([]byte, 0, 78)
	if private {
		p = append(p, config.ChainParams.HDPrivateKeyID[:]...)
	} else {
		p = append(p, config.ChainParams.HDPublicKeyID[:]...)
	}
	p = append(p, k.Depth)
	p = append(p, k.FP[:]...)
	var cn [4]byte
	binary.BigEndian.PutUint32(cn[:], k.CN)
	p = append(p, cn[:]...)
	p = append(p, k.CC[:]...)
	if private {
		p = append(p, 0)
		p = append(p, k.Priv[:]...)
	} else {
		p = append(p, k.Pub[:]...)
	}
	return p
}

func (k *refXKey) xprv() string { return refCheck58(k.payload(true)) }
func (k *refXKey) xpub() string { return refCheck58(k.payload(false)) }

var c14Special = []uint32{0, 1, 2, 0x7fffffff, 0x80000000, 0x80000001, 0xffffffff, 0x80000000 + 44, 0x80000000 + 297, 0x80000000 + 1}

func c14Index(r *core.Rand) uint32 {
	if r.Bool() {
		return c14Special[r.Intn(len(c14Special))]
	}
	return uint32(r.Uint64())
}

func pathStr(path []uint32) string {
	var sb strings.Builder
	sb.WriteString("m")
	for _, i := range path {
		if i >= 0x80000000 {
			fmt.Fprintf(&sb, "/%d'", i-0x80000000)
		} else {
			fmt.Fprintf(&sb, "/%d", i)
		}
	}
	return sb.String()
}

// c14Compare checks one repo key against the reference in every observable field.
func c14Compare(t *core.T, got *hdkeychain.ExtendedKey, want *refXKey, sigPrefix string, w map[string]interface{}) bool {
	t.Eval(1)
	ok := true
	fail := func(what string, g, x interface{}) {
		ok = false
		ww := map[string]interface{}{}
		for k, v := range w {
			ww[k] = v
		}
		ww["field"] = what
		ww["got"] = fmt.Sprint(g)
		ww["want"] = fmt.Sprint(x)
		t.Violatef(sigPrefix+":"+what, ww, "%s: %s got %v want %v", sigPrefix, what, g, x)
	}
	if want.HasPriv && got.IsPrivate() {
		if s := got.String(); s != want.xprv() {
			fail("xprv", s, want.xprv())
			return false
		}
		pk, err := got.ECPrivKey()
		if err != nil || !bytes.Equal(pk.Serialize(), want.Priv[:]) {
			fail("ecprivkey", fmt.Sprintf("%v", err), hex.EncodeToString(want.Priv[:]))
		}
		n, err := got.Neuter()
		if err != nil || n.String() != want.xpub() {
			fail("neuter", fmt.Sprint(n, err), want.xpub())
		}
	} else {
		if got.IsPrivate() {
			fail("isprivate", true, false)
			return false
		}
		if s := got.String(); s != want.xpub() {
			fail("xpub", s, want.xpub())
			return false
		}
	}
	if got.Depth() != want.Depth {
		fail("depth", got.Depth(), want.Depth)
	}
	if got.ParentFingerprint() != binary.BigEndian.Uint32(want.FP[:]) {
		fail("fingerprint", got.ParentFingerprint(), binary.BigEndian.Uint32(want.FP[:]))
	}
	pub, err := got.ECPubKey()
	if err != nil || !bytes.Equal(pub.SerializeCompressed(), want.Pub[:]) {
		fail("ecpubkey", fmt.Sprint(err), hex.EncodeToString(want.Pub[:]))
	}
	return ok
}

const sigShortParent = "hardened-child-of-parent-whose-scalar-has-leading-zero-byte"

// c14Step derives child i from (repo parent, ref parent) and checks all four derivation routes.
// parentShort: the repo parent was produced by Child() and its scalar has a leading zero byte.
func c14Step(t *core.T, rp *hdkeychain.ExtendedKey, refp *refXKey, i uint32, parentShort bool, w map[string]interface{}) (*hdkeychain.ExtendedKey, *refXKey, bool) {
	c, r, _, ok := c14Step4(t, rp, refp, i, parentShort, w)
	return c, r, ok
}

// c14Step4 additionally reports whether the returned repo key holds a short (unpadded) scalar.
func c14Step4(t *core.T, rp *hdkeychain.ExtendedKey, refp *refXKey, i uint32, parentShort bool, w map[string]interface{}) (*hdkeychain.ExtendedKey, *refXKey, bool, bool) {
	c, r, ok := c14StepInner(t, rp, refp, i, parentShort, w)
	if !ok {
		return nil, nil, false, false
	}
	parsed := false
	if pk, _ := c.ECPrivKey(); pk != nil && i >= 0x80000000 && parentShort {
		parsed = true // known-finding route returns the key parsed from the reference serialisation
	}
	return c, r, r.Priv[0] == 0 && !parsed, true
}

func c14StepInner(t *core.T, rp *hdkeychain.ExtendedKey, refp *refXKey, i uint32, parentShort bool, w map[string]interface{}) (*hdkeychain.ExtendedKey, *refXKey, bool) {
	refc, okRef := refCKDPriv(refp, i)
	gotc, err := rp.Child(i)
	if !okRef {
		if err == nil {
			t.Violatef("invalid-child-accepted", w, "Child(%d) succeeded where BIP-32 declares the index invalid", i)
		}
		return nil, nil, false
	}
	if err != nil {
		t.Violatef("child-error", w, "Child(%d) failed: %v", i, err)
		return nil, nil, false
	}
	hardened := i >= 0x80000000
	sig := "child-mismatch"
	if hardened && parentShort {
		sig = sigShortParent
		t.Count("hardened_from_short_parent", 1)
	}
	same := gotc.String() == refc.xprv()
	if !same && sig == sigShortParent {
		t.Violate(sig, fmt.Sprintf("private derivation of hardened child %d from an in-memory parent whose scalar has a leading zero byte differs from BIP-32", i), w)
		// continue from the correct key (parsed from the reference serialisation)
		p, perr := hdkeychain.NewKeyFromString(refc.xprv())
		if perr != nil {
			t.Violatef("parse-rejects-valid", w, "NewKeyFromString rejects %s: %v", refc.xprv(), perr)
			return nil, nil, false
		}
		return p, refc, true
	}
	if !c14Compare(t, gotc, refc, sig, w) {
		return nil, nil, false
	}
	// route 2: public parent → public child
	np, err := rp.Neuter()
	if err != nil {
		t.Violatef("neuter-error", w, "Neuter failed: %v", err)
		return nil, nil, false
	}
	pc, err := np.Child(i)
	if hardened {
		if err == nil {
			t.Violatef("hardened-from-public-accepted", w, "public parent derived hardened child %d", i)
		}
	} else {
		refpc, okp := refCKDPub(refp, i)
		if !okp || err != nil {
			if okp != (err == nil) {
				t.Violatef("public-child-error", w, "public Child(%d): err=%v reference ok=%v", i, err, okp)
			}
		} else {
			if refpc.xpub() != refc.xpub() {
				t.Fatalf("reference inconsistency: CKDpub != neutered CKDpriv")
			}
			c14Compare(t, pc, refpc, "public-child-mismatch", w)
		}
	}
	// route 3: serialise → parse → equal key, and the parsed key derives like the reference
	for _, s := range []string{gotc.String()} {
		p, perr := hdkeychain.NewKeyFromString(s)
		if perr != nil {
			t.Violatef("parse-rejects-valid", w, "NewKeyFromString(String(k)) failed: %v", perr)
			continue
		}
		c14Compare(t, p, refc, "roundtrip-mismatch", w)
	}
	return gotc, refc, true
}

func c14PathCase(t *core.T) {
	seedLen := []int{16, 17, 20, 32, 33, 48, 64}[t.R.Intn(7)]
	seed := t.R.Bytes(seedLen)
	depth := t.R.Range(1, 6)
	path := make([]uint32, depth)
	for i := range path {
		path[i] = c14Index(t.R)
	}
	w := map[string]interface{}{"seed": hex.EncodeToString(seed), "path": pathStr(path)}
	t.Sample(w)
	refm, ok := refMaster(seed)
	m, err := hdkeychain.NewMaster(seed, config.ChainParams)
	if !ok {
		if err == nil {
			t.Violatef("unusable-seed-accepted", w, "NewMaster accepted an unusable seed")
		}
		return
	}
	if err != nil {
		t.Violatef("master-error", w, "NewMaster failed: %v", err)
		return
	}
	if !c14Compare(t, m, refm, "master-mismatch", w) {
		return
	}
	rp, refp := m, refm
	parentShort := false
	shape := ""
	for d, i := range path {
		w["at_depth"] = d + 1
		w["index"] = i
		c, refc, short, ok := c14Step4(t, rp, refp, i, parentShort, w)
		if !ok {
			break
		}
		if i >= 0x80000000 {
			shape += "H"
		} else {
			shape += "N"
		}
		parentShort = short
		rp, refp = c, refc
	}
	t.Nontrivial(fmt.Sprintf("path:seed%d:%s", seedLen, shape))
	// the last key of the path as a reused parent object, private and neutered
	if rp != nil && refp != nil && !t.Failed() {
		c14SiblingCase(t, rp, refp, parentShort, w)
		if np, err := rp.Neuter(); err == nil && !t.Failed() {
			pubRef := *refp
			pubRef.HasPriv = false
			c14SiblingCase(t, np, &pubRef, false, w)
		}
	}
	// illegal seed lengths
	for _, l := range []int{0, 1, 15, 65, 128} {
		if _, err := hdkeychain.NewMaster(make([]byte, l), config.ChainParams); err == nil {
			t.Violatef("seed-length-accepted", map[string]interface{}{"len": l}, "NewMaster accepted a %d-byte seed", l)
		}
	}
}

// c14SiblingCase uses ONE parent object the way the wallet does (nextAddresses, the gap-limit scan, the
// unlock path): children are derived from it one after another, some are zeroed as soon as they have
// been used, others are kept; then every kept child, the parent itself and a second derivation of
// every index must still equal the reference. Derivation must not depend on what happened to sibling
// objects or on how often the parent was used.
func c14SiblingCase(t *core.T, rp *hdkeychain.ExtendedKey, refp *refXKey, parentShort bool, w map[string]interface{}) {
	if parentShort || (refp.HasPriv && refp.Priv[0] == 0) {
		return // the known-finding class is judged by the step checks
	}
	w2 := map[string]interface{}{}
	for k, v := range w {
		w2[k] = v
	}
	private := rp.IsPrivate()
	type kept struct {
		k   *hdkeychain.ExtendedKey
		ref *refXKey
		i   uint32
	}
	var keep []kept
	var idx []uint32
	n := t.R.Range(3, 8)
	seq := ""
	for j := 0; j < n; j++ {
		i := uint32(j)
		if t.R.Chance(30) {
			i = c14Index(t.R)
		}
		if !private && i >= 0x80000000 {
			i &= 0x7fffffff
		}
		var refc *refXKey
		var ok bool
		if private {
			refc, ok = refCKDPriv(refp, i)
		} else {
			refc, ok = refCKDPub(refp, i)
		}
		c, err := rp.Child(i)
		if !ok {
			continue // invalid child per BIP-32 (probability 2^-127)
		}
		if err != nil {
			t.Violatef("sibling-derivation-error", w2, "Child(%d) of a reused parent fails: %v", i, err)
			return
		}
		w2["sibling_sequence"] = seq + fmt.Sprintf("child(%d)", i)
		if refc.HasPriv && refc.Priv[0] == 0 {
			continue
		}
		if !c14Compare(t, c, refc, "sibling-mismatch", w2) {
			return
		}
		idx = append(idx, i)
		if t.R.Chance(50) {
			c.Zero()
			seq += fmt.Sprintf("child(%d),zero;", i)
		} else {
			keep = append(keep, kept{c, refc, i})
			seq += fmt.Sprintf("child(%d),keep;", i)
		}
	}
	w2["sibling_sequence"] = seq
	for _, kp := range keep {
		w2["recheck_index"] = kp.i
		if !c14Compare(t, kp.k, kp.ref, "kept-sibling-changed", w2) {
			return
		}
	}
	delete(w2, "recheck_index")
	if !c14Compare(t, rp, refp, "parent-changed-by-use", w2) {
		return
	}
	for _, i := range idx {
		var refc *refXKey
		if private {
			refc, _ = refCKDPriv(refp, i)
		} else {
			refc, _ = refCKDPub(refp, i)
		}
		c, err := rp.Child(i)
		if err != nil || refc == nil {
			continue
		}
		w2["second_derivation_index"] = i
		if !c14Compare(t, c, refc, "second-derivation-mismatch", w2) {
			return
		}
	}
	t.Count("sibling_sequences", 1)
}

// c14ShortParentCase: targeted construction of parents with 1 (or 2) leading zero bytes.
func c14ShortParentCase(t *core.T, zeros int) {
	seed := t.R.Bytes(32)
	refm, ok := refMaster(seed)
	if !ok {
		return
	}
	m, err := hdkeychain.NewMaster(seed, config.ChainParams)
	if err != nil {
		t.Violatef("master-error", nil, "NewMaster failed: %v", err)
		return
	}
	// search a hardened index whose child scalar starts with `zeros` zero bytes (pure hashing)
	limit := uint32(3000)
	if zeros == 2 {
		limit = 400000
	}
	start := uint32(t.R.Uint64()) & 0x3fffffff
	var found *refXKey
	var idx uint32
	for j := uint32(0); j < limit; j++ {
		i := 0x80000000 + start + j
		c, ok := refCKDPrivNoPub(refm, i)
		if !ok {
			continue
		}
		z := 0
		for z < 32 && c.Priv[z] == 0 {
			z++
		}
		if z >= zeros {
			idx = i
			found, _ = refCKDPriv(refm, i)
			break
		}
	}
	if found == nil {
		t.Count("short_parent_search_misses", 1)
		return
	}
	w := map[string]interface{}{"seed": hex.EncodeToString(seed), "parent_path": pathStr([]uint32{idx}), "parent_scalar": hex.EncodeToString(found.Priv[:])}
	t.Sample(w)
	par, err := m.Child(idx)
	if err != nil {
		t.Violatef("child-error", w, "Child failed: %v", err)
		return
	}
	if !c14Compare(t, par, found, "child-mismatch", w) {
		return
	}
	t.Count(fmt.Sprintf("parents_with_%d_leading_zero_bytes", zeros), 1)
	t.Nontrivial(fmt.Sprintf("shortparent:%d:%d", zeros, t.Index))
	for n := 0; n < 3; n++ {
		for _, i := range []uint32{uint32(t.R.Uint64()) | 0x80000000, uint32(t.R.Uint64()) &^ 0x80000000} {
			ww := map[string]interface{}{"seed": w["seed"], "parent_path": w["parent_path"], "parent_scalar": w["parent_scalar"], "index": i}
			c, refc, short, ok := c14Step4(t, par, found, i, true, ww)
			if ok && c != nil {
				// one more level below, both kinds
				j := c14Index(t.R)
				ww["grandchild_index"] = j
				c14Step(t, c, refc, j, short, ww)
			}
		}
	}
}

// refCKDPrivNoPub: hardened derivation without computing the public key (search loop).
func refCKDPrivNoPub(p *refXKey, i uint32) (*refXKey, bool) {
	data := make([]byte, 37)
	copy(data[1:], p.Priv[:])
	binary.BigEndian.PutUint32(data[33:], i)
	m := hmac.New(sha512.New, p.CC[:])
	m.Write(data)
	I := m.Sum(nil)
	il := new(big.Int).SetBytes(I[:32])
	if il.Cmp(curveN) >= 0 {
		return nil, false
	}
	k := new(big.Int).Add(il, new(big.Int).SetBytes(p.Priv[:]))
	k.Mod(k, curveN)
	if k.Sign() == 0 {
		return nil, false
	}
	c := &refXKey{HasPriv: true}
	kb := k.Bytes()
	copy(c.Priv[32-len(kb):], kb)
	return c, true
}

func c14CorruptionCase(t *core.T) {
	seed := t.R.Bytes(32)
	refk, ok := refMaster(seed)
	if !ok {
		return
	}
	for d := t.R.Intn(4); d > 0; d-- {
		if c, ok := refCKDPriv(refk, c14Index(t.R)); ok {
			refk = c
		}
	}
	private := t.R.Bool()
	payload := refk.payload(private)
	good := refCheck58(payload)
	w0 := map[string]interface{}{"key": good}
	t.Sample(map[string]interface{}{"kind": "corruptions-of", "key": good})
	k, err := hdkeychain.NewKeyFromString(good)
	if err != nil || k.String() != good {
		t.Violatef("parse-rejects-valid", w0, "NewKeyFromString(%s): %v", good, err)
		return
	}
	// (1) all single-character substitutions of the string
	for pos := 0; pos < len(good); pos++ {
		for a := 0; a < len(b58Alphabet); a++ {
			if b58Alphabet[a] == good[pos] {
				continue
			}
			s := good[:pos] + string(b58Alphabet[a]) + good[pos+1:]
			t.Eval(1)
			if kk, err := hdkeychain.NewKeyFromString(s); err == nil {
				t.Violatef("corrupted-accepted:char", map[string]interface{}{"key": s, "orig": good}, "single-character corruption accepted (decodes to %s)", kk.String())
			}
		}
	}
	t.Nontrivial(fmt.Sprintf("corrupt:chars:priv=%v:depth=%d", private, refk.Depth))
	// truncations / extensions / non-alphabet characters
	for _, s := range []string{good[:len(good)-1], good[1:], good + "1", "1" + good, good[:50] + "0" + good[51:], good[:50] + "l" + good[51:], "", " " + good} {
		t.Eval(1)
		if _, err := hdkeychain.NewKeyFromString(s); err == nil {
			t.Violatef("corrupted-accepted:length", map[string]interface{}{"key": s, "orig": good}, "length/alphabet corruption accepted")
		}
	}
	// (2) every single-byte change of the payload with recomputed checksum
	for pos := 0; pos < len(payload); pos++ {
		for _, delta := range []byte{0x01, 0x80, byte(t.R.Range(1, 255))} {
			p := append([]byte{}, payload...)
			p[pos] ^= delta
			c14CheckPayload(t, p, fmt.Sprintf("byte%d", pos))
		}
	}
	// (3) constructed key material
	mk := func(keydata []byte) []byte {
		p := append([]byte{}, payload[:45]...)
		return append(p, keydata...)
	}
	n := curveN
	pad32 := func(x *big.Int) []byte {
		b := x.Bytes()
		return append(make([]byte, 32-len(b)), b...)
	}
	cons := map[string][]byte{
		"scalar0":     mk(append([]byte{0}, make([]byte, 32)...)),
		"scalarN":     mk(append([]byte{0}, pad32(n)...)),
		"scalarN+1":   mk(append([]byte{0}, pad32(new(big.Int).Add(n, big.NewInt(1)))...)),
		"scalarN-1":   mk(append([]byte{0}, pad32(new(big.Int).Sub(n, big.NewInt(1)))...)),
		"scalar1":     mk(append([]byte{0}, pad32(big.NewInt(1))...)),
		"scalarMax":   mk(append([]byte{0}, bytes.Repeat([]byte{0xff}, 32)...)),
		"prefix04":    mk(append([]byte{4}, refk.Pub[1:]...)),
		"prefix05":    mk(append([]byte{5}, refk.Pub[1:]...)),
		"prefix01":    mk(append([]byte{1}, refk.Pub[1:]...)),
		"prefix06":    mk(append([]byte{6}, refk.Pub[1:]...)),
		"xZero":       mk(append([]byte{2}, make([]byte, 32)...)),
		"xP":          mk(append([]byte{2}, pad32(btcec.S256().P)...)),
		"xP+1":        mk(append([]byte{3}, pad32(new(big.Int).Add(btcec.S256().P, big.NewInt(1)))...)),
		"xMax":        mk(append([]byte{2}, bytes.Repeat([]byte{0xff}, 32)...)),
		"wrongParity": mk(append([]byte{refk.Pub[0] ^ 1}, refk.Pub[1:]...)),
	}
	for name, p := range cons {
		c14CheckPayload(t, p, name)
	}
	for k := 0; k < 40; k++ {
		x := t.R.Bytes(32)
		c14CheckPayload(t, mk(append([]byte{2 + byte(t.R.Intn(2))}, x...)), "randomX")
	}
}

func c14PayloadValid(p []byte) bool {
	kd := p[45:78]
	if kd[0] == 0 {
		k := new(big.Int).SetBytes(kd[1:])
		return k.Sign() > 0 && k.Cmp(curveN) < 0
	}
	x, _ := refDecompress(kd)
	return x != nil
}

func c14CheckPayload(t *core.T, p []byte, kind string) {
	t.Eval(1)
	s := refCheck58(p)
	valid := c14PayloadValid(p)
	k, err := hdkeychain.NewKeyFromString(s)
	w := map[string]interface{}{"key": s, "payload": hex.EncodeToString(p), "mutation": kind}
	if valid {
		if err != nil {
			t.Violatef("parse-rejects-valid:"+kind, w, "NewKeyFromString rejects a key with valid material: %v", err)
		} else if k.String() != s {
			t.Violatef("roundtrip-mismatch:"+kind, w, "String(NewKeyFromString(s)) != s: %s", k.String())
		}
		t.Count("payloads_valid", 1)
	} else {
		if err == nil {
			t.Violatef("corrupted-accepted:"+kind, w, "NewKeyFromString accepts off-curve / out-of-range key material")
		}
		t.Count("payloads_invalid", 1)
		t.Nontrivial("invalid-material:" + kind)
	}
}

func c14Python(t *core.T, n int) {
	verif := os.Getenv("VERIF_DIR")
	if verif == "" {
		verif = "/verif"
	}
	out, err := exec.Command("python3", filepath.Join(verif, "tools", "bip32_ref.py"), fmt.Sprint(t.Seed), fmt.Sprint(n)).Output()
	if err != nil {
		t.Fatalf("python reference failed: %v", err)
	}
	sc := bufio.NewScanner(bytes.NewReader(out))
	cnt := 0
	for sc.Scan() {
		var v struct {
			Seed     string
			Path     []uint32
			Priv, CC string
			Pub, FP  string
			Depth    uint8
			Childnum uint32
			Error    string
		}
		if json.Unmarshal(sc.Bytes(), &v) != nil {
			continue
		}
		if v.Error != "" {
			t.Inconclusive("python reference unavailable: " + v.Error)
			return
		}
		cnt++
		seed, _ := hex.DecodeString(v.Seed)
		k, ok := refMaster(seed)
		if !ok {
			t.Fatalf("references disagree on master usability")
		}
		for _, i := range v.Path {
			k, ok = refCKDPriv(k, i)
			if !ok {
				t.Fatalf("references disagree on child validity")
			}
		}
		if hex.EncodeToString(k.Priv[:]) != v.Priv || hex.EncodeToString(k.CC[:]) != v.CC || hex.EncodeToString(k.Pub[:]) != v.Pub ||
			hex.EncodeToString(k.FP[:]) != v.FP || k.Depth != v.Depth || k.CN != v.Childnum {
			t.Fatalf("Go reference and python reference disagree on seed %s path %v", v.Seed, v.Path)
		}
		t.Eval(1)
	}
	if cnt < n*9/10 {
		t.Fatalf("python reference produced %d of %d vectors", cnt, n)
	}
	t.Count("python_vectors", cnt)
	t.Nontrivial("python-crosscheck")
}

func init() {
	type plan struct{ py, paths, pathsPer, short1, short2, corrupt int }
	plans := map[string]plan{
		"quick":    {py: 200, paths: 32, pathsPer: 40, short1: 48, short2: 2, corrupt: 6},
		"thorough": {py: 3000, paths: 128, pathsPer: 800, short1: 3000, short2: 40, corrupt: 120},
	}
	core.Register(&core.Property{
		ID:    "C14",
		Level: "exploration",
		Rule: "cases = (a) seeded seeds of 16-64 bytes with paths to depth 6 over special and random hardened/non-hardened indexes, each step checked on four routes (private child, public child from neutered parent, neuter, String→NewKeyFromString round trip); " +
			"(b) targeted construction of parents whose scalar has 1 or 2 leading zero bytes (hash search over hardened indexes) followed by hardened and non-hardened children and grandchildren; " +
			"(c) corruption of serialised keys: every single-character substitution, every payload byte (re-checksummed), constructed scalars 0,n,n±1 and off-curve / wrongly prefixed points. " +
			"oracle = fixed-width BIP-32 reference cross-checked at run time with tools/bip32_ref.py (pure python secp256k1, anchored on BIP-32 vector 1). distinct_nontrivial = distinct (seed length, H/N path shape), short-parent constructions, corruption kinds that produce invalid material",
		Assumptions: []string{"btcec curve arithmetic (ScalarBaseMult, Add) is trusted", "x/crypto ripemd160 is trusted", "version bytes are read from config.ChainParams"},
		Cases: func(tier string, seed int64) int {
			p := plans[tier]
			return 1 + p.paths + p.short1 + p.short2 + p.corrupt
		},
		Run: func(t *core.T) {
			p := plans[t.Tier]
			i := t.Index
			if i == 0 {
				c14Python(t, p.py)
				return
			}
			i--
			if i < p.paths {
				for n := 0; n < p.pathsPer; n++ {
					c14PathCase(t)
				}
				return
			}
			i -= p.paths
			if i < p.short1 {
				c14ShortParentCase(t, 1)
				return
			}
			i -= p.short1
			if i < p.short2 {
				c14ShortParentCase(t, 2)
				return
			}
			c14CorruptionCase(t)
		},
	})
}
