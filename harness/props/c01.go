package props

import (
	"fmt"
	"path/filepath"
	"sort"
	"strings"
	"sync"
	"time"

	"github.com/massnetorg/mass-core/consensus"

	"verifharness/core"
	"verifharness/sim"
)

// C01 — wallet ledger equals what the best chain pays to its addresses.
// Monitor: reference ledger recomputed from the node's best chain at every quiescent point
// (lock-step) or after a burst of chain changes made while the handler is held.

type gate struct {
	mu sync.Mutex
	ch chan struct{}
}

func (g *gate) Close() {
	g.mu.Lock()
	if g.ch == nil {
		g.ch = make(chan struct{})
	}
	g.mu.Unlock()
}

func (g *gate) Open() {
	g.mu.Lock()
	if g.ch != nil {
		close(g.ch)
		g.ch = nil
	}
	g.mu.Unlock()
}

func (g *gate) Wait() {
	g.mu.Lock()
	ch := g.ch
	g.mu.Unlock()
	if ch != nil {
		<-ch
	}
}

type worldCfg struct {
	Maturity   uint64
	Wallets    int
	Staking    bool
	BindingOld bool
	BindingNew bool
	Gap        uint32
	Warm       uint64 // MASSIP0002 warm-up height (0 = mass-core's default)
}

var defaultConsensus = struct {
	cm, warm, minFrozen, minStaking uint64
}{consensus.CoinbaseMaturity, consensus.MASSIP0002WarmUpHeight, consensus.MinFrozenPeriod, consensus.MinStakingValue}

func restoreConsensus() {
	consensus.CoinbaseMaturity = defaultConsensus.cm
	consensus.MASSIP0002WarmUpHeight = defaultConsensus.warm
	consensus.MinFrozenPeriod = defaultConsensus.minFrozen
	consensus.MinStakingValue = defaultConsensus.minStaking
}

// newWorld sets up node + started wallet instance + wallets with addresses.
func newWorld(t *core.T, c worldCfg) *sim.World {
	sim.InitProcess(filepath.Join(filepath.Dir(t.Dir), "log"))
	sim.ResetFatalEvents()
	consensus.CoinbaseMaturity = c.Maturity
	if c.Warm > 0 {
		consensus.MASSIP0002WarmUpHeight = c.Warm
	}
	consensus.MinFrozenPeriod = 2
	n, err := sim.NewNode(filepath.Join(t.Dir, "node"))
	if err != nil {
		t.Fatalf("node: %v", err)
	}
	w, err := sim.OpenWallet(n, filepath.Join(t.Dir, "wallet"), sim.NewConfig(c.Gap))
	if err != nil {
		t.Fatalf("wallet: %v", err)
	}
	if err := w.Start(); err != nil {
		t.Fatalf("start: %v", err)
	}
	wd := &sim.World{T: t, R: t.R, N: n, W: w}
	wd.Opt = sim.GenOpts{Staking: c.Staking, BindingOld: c.BindingOld, BindingNew: c.BindingNew, Frozen: []uint64{2, 4, 9}}
	for i := 0; i < c.Wallets; i++ {
		k, err := wd.NewWalletKeys(fmt.Sprintf("passW%dx%d", i, t.R.Intn(1000)), []int{128, 160, 192, 224, 256}[t.R.Intn(5)], t.R.Range(2, 4))
		if err != nil {
			t.Fatalf("create wallet: %v", err)
		}
		if c.Staking && t.R.Bool() {
			if _, err := wd.IssueAddress(k, 1); err != nil {
				t.Fatalf("staking address: %v", err)
			}
		}
	}
	return wd
}

func closeWorld(t *core.T, wd *sim.World) {
	if !wd.W.Stop(30 * time.Second) {
		t.Inconclusive("WalletManager.Stop did not return within 30s at the end of the case (C20's subject)")
	}
	wd.N.Close()
	restoreConsensus()
}

func reportLedgerDiffs(t *core.T, wd *sim.World, diffs map[string][]string, when string) {
	if len(diffs) == 0 {
		return
	}
	var keys []string
	for k := range diffs {
		keys = append(keys, k)
	}
	sort.Strings(keys)
	sig := "ledger-mismatch"
	if _, ok := diffs["synced"]; ok {
		sig = "wallet-stops-following"
	}
	if _, ok := diffs["observe"]; ok {
		sig = "observation-error"
	}
	var lines []string
	for _, k := range keys {
		for _, d := range diffs[k] {
			lines = append(lines, k+": "+d)
		}
	}
	w := wd.Witness()
	w["differences"] = lines
	w["when"] = when
	if fe := sim.FatalEvents(); len(fe) > 0 {
		w["fatal_events"] = fe
		sig = "follower-died"
	}
	t.Violate(sig, fmt.Sprintf("%s: wallet observation differs from the reference ledger of the best chain: %s", when, strings.Join(lines, " | ")), w)
}

func c01Case(t *core.T, maxSteps int) {
	cfg := worldCfg{Maturity: uint64(t.R.Range(2, 7)), Wallets: t.R.Range(1, 3), Staking: t.R.Chance(50), BindingOld: t.R.Chance(30), BindingNew: t.R.Chance(25), Gap: 20}
	if cfg.BindingNew {
		cfg.Warm = uint64(t.R.Range(4, 20))
	}
	wd := newWorld(t, cfg)
	defer closeWorld(t, wd)
	g := &gate{}
	wd.W.Points.SetFn(func(name string) {
		if name == "handle.loop" {
			g.Wait()
		}
	})
	defer g.Open()
	burst := t.R.Chance(40)
	steps := t.R.Range(maxSteps/3, maxSteps)
	opts := sim.CompareOpts{Histories: true, AddrBal: true}
	var shape []string
	reorgRelevant := 0
	maxDepth := 0
	revivals, reconnected := 0, 0
	check := func(when string) bool {
		if !wd.Settle() {
			t.Inconclusive("handler did not become idle within 60s " + when)
			return false
		}
		t.Eval(1)
		d := wd.CheckLedger(opts)
		reportLedgerDiffs(t, wd, d, when)
		return len(d) == 0
	}
	inBurst := 0
	for s := 0; s < steps && !t.Failed(); s++ {
		if burst && inBurst == 0 && t.R.Chance(25) {
			// hold the handler; perform 2-15 further chain changes; release
			g.Close()
			inBurst = t.R.Range(2, 15)
			wd.Logf("-- handler held for %d chain changes", inBurst)
			shape = append(shape, "B")
		}
		switch t.R.Pick(58, 20, 8, 6, 8) {
		case 0:
			b, err := wd.Extend(t.R.Intn(4))
			if err != nil {
				t.Fatalf("extend: %v", err)
			}
			wd.W.Deliver(b)
			shape = append(shape, "e")
		case 1:
			height := int(wd.N.Height())
			if height < 2 {
				continue
			}
			depth := t.R.Range(1, 4)
			if t.R.Chance(15) {
				depth = t.R.Range(1, height-1)
			}
			if depth > height-1 {
				depth = height - 1
			}
			if depth < 1 {
				continue
			}
			length := depth + t.R.Range(-1, 2)
			if length < 1 {
				length = 1
			}
			nb, rel, err := wd.Fork(depth, length, t.R.Intn(3))
			if err != nil {
				t.Fatalf("fork: %v", err)
			}
			if nb == nil {
				continue
			}
			wd.W.Deliver(nb)
			if rel {
				reorgRelevant++
			}
			if depth > maxDepth {
				maxDepth = depth
			}
			shape = append(shape, fmt.Sprintf("f%d/%d", depth, length))
		case 2:
			// silent import: blocks connected without announcement, then one announced
			k := t.R.Range(1, 3)
			for i := 0; i < k; i++ {
				if _, err := wd.Extend(t.R.Intn(3)); err != nil {
					t.Fatalf("extend: %v", err)
				}
			}
			wd.Logf("(previous %d blocks were not announced)", k)
			b, err := wd.Extend(t.R.Intn(3))
			if err != nil {
				t.Fatalf("extend: %v", err)
			}
			wd.W.Deliver(b)
			shape = append(shape, fmt.Sprintf("s%d", k))
		case 4:
			// an abandoned branch wins after all: blocks the wallet has seen connected and disconnected
			// are connected a second time (and may be disconnected again by a later fork or revival)
			nb, again, err := wd.Revive(t.R.Intn(3))
			if err != nil {
				t.Fatalf("revive: %v", err)
			}
			if nb == nil {
				continue
			}
			wd.W.Deliver(nb)
			revivals++
			reconnected += again
			shape = append(shape, fmt.Sprintf("r%d", again))
		case 3:
			// payments are only made to issued addresses: issuing is a quiescent API action
			if inBurst > 0 {
				continue
			}
			if !wd.Settle() {
				t.Inconclusive("handler not idle before NewAddress")
				return
			}
			k := wd.Keys[t.R.Intn(len(wd.Keys))]
			class := uint16(0)
			if cfg.Staking && t.R.Chance(30) {
				class = 1
			}
			if _, err := wd.IssueAddress(k, class); err != nil {
				// gap-limit refusals are legitimate (C12's subject)
				wd.Logf("NewAddress refused: %v", err)
			}
			shape = append(shape, "a")
		}
		if inBurst > 0 {
			inBurst--
			if inBurst == 0 {
				wd.Logf("-- handler released")
				g.Open()
				if !check("after a burst of chain changes") {
					break
				}
			}
			continue
		}
		if !check(fmt.Sprintf("after step %d (lock-step)", s)) {
			break
		}
	}
	g.Open()
	if !t.Failed() {
		check("at the end of the history")
	}
	t.Max("fork_depth", maxDepth)
	t.Max("chain_height", int(wd.N.Height()))
	t.Count("reorgs_disconnecting_wallet_blocks", reorgRelevant)
	t.Count("revivals_of_abandoned_branches", revivals)
	t.Count("blocks_connected_a_second_time", reconnected)
	for _, d := range wd.Disp {
		t.Count("rolled_back_tx_"+d, 1)
	}
	if reorgRelevant > 0 {
		t.Nontrivial(fmt.Sprintf("%s|%s|w%d", strings.Join(shape, ""), strings.Join(wd.Disp, ","), cfg.Wallets))
	}
	ops := wd.Ops
	if len(ops) > 30 {
		ops = ops[:30]
	}
	t.Sample(map[string]interface{}{"config": cfg, "burst": burst, "shape": strings.Join(shape, " "), "first_ops": ops})
}

func init() {
	plans := map[string]struct{ cases, steps int }{
		"quick":    {cases: 300, steps: 45},
		"thorough": {cases: 6000, steps: 110},
	}
	core.Register(&core.Property{
		ID:    "C01",
		Level: "exploration",
		Rule: "case = seeded history over a block tree on the node simulator (mass-core's real chain database): extend with coinbase/standard/staking/binding payments and spends among 1-3 wallets and strangers (spend chains in one block, shared transactions), " +
			"forks of depth 1..chain length with the new branch shorter/equal/longer, rolled-back wallet transactions re-mined / dropped / double-spent by draw, silent imports (unannounced blocks), address issuing; delivered lock-step (compare after every announcement) " +
			"or in bursts (handler held at its loop top while 2-15 further chain changes incl. reorgs happen, then released). Oracle: ledger recomputed from scratch from the best chain (UTXO multiset with address/amount/height/maturity/confirmations, four balance figures, per-address balances, gross balance, SyncedTo, mined staking/binding histories). " +
			"distinct_nontrivial = distinct (op shape, dispositions, wallet count) of cases with ≥1 reorg that disconnected a block carrying a wallet-relevant transaction or coinbase",
		Assumptions: []string{"node announces only the final tip of a reorganisation (blockchain.reorganizeChain)", "payments go only to addresses the wallet has issued", "maturity rules transcribed from mass-core checkTxInMaturity / calcSequenceLock", "consensus.CoinbaseMaturity lowered to 2-7 per case (package variable) so that boundaries are reached"},
		Cases:       func(tier string, seed int64) int { return plans[tier].cases },
		Run: func(t *core.T) {
			c01Case(t, plans[t.Tier].steps)
		},
	})
}
