package props

import (
	"fmt"
	"os"
	"sort"
	"strings"
	"sync"
	"sync/atomic"
	"time"

	"github.com/massnetorg/mass-core/massutil"
	"github.com/massnetorg/mass-core/wire"
	"massnet.org/mass-wallet/masswallet/keystore"

	"verifharness/core"
	"verifharness/sim"
)

// C17 — queries racing with synchronisation see one block boundary; no data races.
//
// Part 1 (schedule control through the wallet-database interposer): a dry run of a query counts its
// database reads r1…rn. For every gap j the query is run again in its own goroutine with a gate in
// front of read j; while it is parked there the node announces 1–3 tips (connects and
// reorganisations) and the follower commits them; after each commit the harness asks the same
// question in a separate, undisturbed call (A1…Am; A0 was taken before). Then the gate opens. The
// answer X of the gated query must be one of A0…Am (a register written by the block-applying
// goroutine and read by the query); a
// transaction built by the gated call must spend only coins that are unspent, mature and unlocked at
// ONE of the boundaries. Part 2: API goroutines, follower and worker run together under the Go race
// detector (Race cases); every report with a wallet frame is a violation.

type c17Gate struct {
	mu      sync.Mutex
	armed   bool
	target  int
	count   int
	trace   []string
	held    chan struct{}
	release chan struct{}
}

func (g *c17Gate) hook(ev *sim.Event) error {
	if ev.Role != "api" || ev.Kind == "bucket" || ev.Kind == "rollback" || ev.Kind == "commit" {
		return nil
	}
	g.mu.Lock()
	if !g.armed {
		g.mu.Unlock()
		return nil
	}
	g.count++
	if len(g.trace) < 6000 {
		g.trace = append(g.trace, ev.Kind+" "+ev.Bucket)
	}
	if g.count != g.target {
		g.mu.Unlock()
		return nil
	}
	g.armed = false
	held, rel := g.held, g.release
	g.mu.Unlock()
	close(held)
	<-rel
	return nil
}

func (g *c17Gate) arm(target int) {
	g.mu.Lock()
	g.armed, g.target, g.count, g.trace = true, target, 0, nil
	g.held, g.release = make(chan struct{}), make(chan struct{})
	g.mu.Unlock()
}

func (g *c17Gate) disarm() (int, []string) {
	g.mu.Lock()
	defer g.mu.Unlock()
	g.armed = false
	return g.count, g.trace
}

type c17Query struct {
	name string
	// run returns a canonical answer string; built is the transaction a building query created
	run func(e *c17Env) (answer string, built *wire.MsgTx, err error)
}

type c17Env struct {
	want int64 // amount the building query asks for (fixed per placement: nearly the spendable balance)
	t    *core.T
	wd   *sim.World
	k    *sim.WalletKeys
	gate *c17Gate
}

func c17Bal(b [4]int64) string {
	return fmt.Sprintf("total=%d spendable=%d wstaking=%d wbinding=%d", b[0], b[1], b[2], b[3])
}

var c17Queries = []c17Query{
	{"WalletBalance(detail)", func(e *c17Env) (string, *wire.MsgTx, error) {
		wb, err := e.wd.W.W.WalletBalance(1, true)
		if err != nil {
			return "", nil, err
		}
		return c17Bal([4]int64{wb.Total.IntValue(), wb.Spendable.IntValue(), wb.WithdrawableStaking.IntValue(), wb.WithdrawableBinding.IntValue()}), nil, nil
	}},
	{"AddressBalance", func(e *c17Env) (string, *wire.MsgTx, error) {
		abs, err := e.wd.W.W.AddressBalance(1, nil)
		if err != nil {
			return "", nil, err
		}
		var l []string
		for _, ab := range abs {
			l = append(l, ab.Address[:12]+" "+c17Bal([4]int64{ab.Total.IntValue(), ab.Spendable.IntValue(), ab.WithdrawableStaking.IntValue(), ab.WithdrawableBinding.IntValue()}))
		}
		sort.Strings(l)
		return strings.Join(l, "; "), nil, nil
	}},
	{"GetUtxo", func(e *c17Env) (string, *wire.MsgTx, error) {
		m, err := e.wd.W.W.GetUtxo(nil)
		if err != nil {
			return "", nil, err
		}
		var l []string
		for _, list := range m {
			for _, u := range list {
				l = append(l, fmt.Sprintf("%s:%d amt=%d h=%d mat=%d conf=%d sbu=%v", u.TxId[:10], u.Vout, u.Amount.IntValue(), u.BlockHeight, u.Maturity, u.Confirmations, u.SpentByUnmined))
			}
		}
		sort.Strings(l)
		return strings.Join(l, "; "), nil, nil
	}},
	{"AutoCreateRawTransaction", func(e *c17Env) (string, *wire.MsgTx, error) {
		want := e.want
		amt, _ := massutil.NewAmountFromInt(want)
		raw, _, err := e.wd.W.W.AutoCreateRawTransaction(map[string]massutil.Amount{sim.StdAddr(e.wd.StrangerPub()): amt}, 0, massutil.ZeroAmount(), "", "", nil)
		if err != nil {
			return "error: " + err.Error(), nil, nil
		}
		tx, derr := decodeTxHex(raw)
		if derr != nil {
			return "", nil, derr
		}
		e.wd.W.W.ClearUsedUTXOMark(tx)
		var ins []string
		for _, in := range tx.TxIn {
			ins = append(ins, fmt.Sprintf("%s:%d", in.PreviousOutPoint.Hash.String()[:10], in.PreviousOutPoint.Index))
		}
		sort.Strings(ins)
		return "inputs " + strings.Join(ins, ","), tx, nil
	}},
}

// spendableAt: every input of tx is an unspent, mature, unlocked standard coin of the wallet on chain.
func c17SpendableAt(tx *wire.MsgTx, chain []*sim.Block, owned map[[32]byte]bool) string {
	v, err := sim.ViewOfChain(chain)
	if err != nil {
		return "view: " + err.Error()
	}
	seen := map[wire.OutPoint]bool{}
	for _, in := range tx.TxIn {
		op := in.PreviousOutPoint
		if seen[op] {
			return fmt.Sprintf("input %s:%d twice", op.Hash.String()[:10], op.Index)
		}
		seen[op] = true
		o := v.Outs[op]
		switch {
		case o == nil:
			return fmt.Sprintf("input %s:%d does not exist at height %d", op.Hash.String()[:10], op.Index, v.Tip)
		case o.Spent:
			return fmt.Sprintf("input %s:%d is spent at height %d", op.Hash.String()[:10], op.Index, v.Tip)
		case !o.HasHash || !owned[o.Hash]:
			return fmt.Sprintf("input %s:%d is not the wallet's", op.Hash.String()[:10], op.Index)
		case o.Class != sim.ClassStd:
			return fmt.Sprintf("input %s:%d is a locked (staking/binding) coin", op.Hash.String()[:10], op.Index)
		case !v.Mature(o):
			return fmt.Sprintf("input %s:%d (height %d, maturity %d) is immature at height %d", op.Hash.String()[:10], op.Index, o.Height, o.Maturity(), v.Tip)
		}
	}
	return ""
}

func c17Case(t *core.T, maxGaps int) {
	cfg := worldCfg{Maturity: uint64(t.R.Range(2, 3)), Wallets: 1, Staking: true, BindingOld: t.R.Bool(), Gap: 20}
	wd := newWorld(t, cfg)
	defer func() { closeWorld(t, wd) }()
	wd.NoDrop = true
	wd.Opt.Frozen = []uint64{2, 3}
	k := wd.Keys[0]
	e := &c17Env{t: t, wd: wd, k: k, gate: &c17Gate{}}
	for i := 0; i < t.R.Range(10, 16); i++ {
		b, err := wd.Extend(t.R.Range(1, 4))
		if err != nil {
			t.Fatalf("extend: %v", err)
		}
		wd.W.Deliver(b)
	}
	if !wd.Settle() {
		t.Inconclusive("handler not idle")
		return
	}
	if _, err := wd.W.W.UseWallet(k.ID); err != nil {
		t.Fatalf("UseWallet: %v", err)
	}
	wd.W.DB.SetHook(e.gate.hook)
	defer wd.W.DB.SetHook(nil)
	for qi := range c17Queries {
		q := c17Queries[(qi+t.Index)%len(c17Queries)]
		if t.Failed() {
			return
		}
		// dry run: number of reads
		e.want = 50000
		if wb, err := wd.W.W.WalletBalance(1, true); err == nil && wb.Spendable.IntValue() > 400000 {
			e.want = wb.Spendable.IntValue() / 100 * 97
		}
		e.gate.arm(0)
		_, _, err := q.run(e)
		n, trace := e.gate.disarm()
		if err != nil {
			t.Fatalf("%s (dry run): %v", q.name, err)
		}
		t.Observe("reads_per_query", fmt.Sprintf("%s=%d", q.name, n))
		t.Max("reads_"+q.name, n)
		var targets []c17Target
		phases := 0
		if n <= maxGaps {
			for j := 1; j <= n; j++ {
				targets = append(targets, c17Target{index: j})
			}
		} else {
			// the places in front of a read transaction of the call (the first dozen; a building call
			// opens one more per selected input later on) are always taken: there a call made of several
			// read transactions can combine two states. The rest of the budget is spread over the reads.
			// A building call opens one read transaction per selected input (hundreds, all alike) and a
			// few others (height, coin selection - once per fee iteration): the latter are the phases.
			// A beginning counts as a phase if the read that follows it is a rare one.
			freq := map[string]int{}
			for i, r := range trace {
				if strings.HasPrefix(r, "beginread") && i+1 < len(trace) {
					freq[trace[i+1]]++
				}
			}
			occ := map[string]int{}
			for i, r := range trace {
				if !strings.HasPrefix(r, "beginread") || i+1 >= len(trace) {
					continue
				}
				l := trace[i+1]
				occ[l]++
				if freq[l] <= 6 && phases < 12 {
					phases++
					targets = append(targets, c17Target{label: l, beginread: occ[l]}, c17Target{label: l, beginread: occ[l], twoTips: true})
				}
			}
			t.Max("phases_"+q.name, phases)
			targets = append(targets, c17Target{index: 2}, c17Target{index: 3}, c17Target{permille: 999})
			for len(targets) < maxGaps+phases {
				targets = append(targets, c17Target{permille: t.R.Intn(1000)})
			}
			t.Count("queries_with_sampled_gaps", 1)
		}
		if os.Getenv("VERIF_C17_DEBUG") != "" {
			fmt.Fprintf(os.Stderr, "C17DBG targets of %s (n=%d): %+v\n", q.name, n, targets)
		}
		for _, tg := range targets {
			if t.Failed() {
				return
			}
			if !c17Gap(t, e, q, tg) {
				return
			}
		}
	}
	t.Sample(map[string]interface{}{"height_at_end": wd.N.Height(), "wallet": k.ID})
}

// c17Gap: one placement. Returns false when the case cannot go on.
// c17Target: where the query is parked. beginread k > 0: in front of its k-th read transaction
// (k counted from 1); else in front of read number frac/1000 of its reads.
type c17Target struct {
	label     string // with beginread > 0: the beginread-th read transaction whose first read is `label`
	beginread int
	index     int // absolute read index (small queries, all gaps)
	permille  int // relative position for sampled gaps
	twoTips   bool
}

func c17Gap(t *core.T, e *c17Env, q c17Query, tg c17Target) bool {
	wd := e.wd
	t.Eval(1)
	// nearly the whole spendable balance: (almost) every coin the building call considers eligible
	// ends up as an input, so a coin wrongly taken for eligible shows in the result
	e.want = 50000
	if wb, err := wd.W.W.WalletBalance(1, true); err == nil && wb.Spendable.IntValue() > 400000 {
		e.want = wb.Spendable.IntValue() / 100 * 97
	}
	cbw := int64(0)
	if tg.twoTips {
		// let everything paid so far mature first, so that nothing large matures inside the window
		for i := 0; i < 4; i++ {
			b, err := wd.Extend(0)
			if err != nil {
				t.Fatalf("extend: %v", err)
			}
			wd.W.Deliver(b)
		}
		if !wd.Settle() {
			t.Inconclusive("handler not idle")
			return false
		}
		// (the request stays satisfiable: the building call iterates selection and fee estimate, and
		// only its last selection decides; the new tip then pays the wallet a coinbase larger than
		// every other coin, which a selection with a stale height would take first)
	}
	// the coinbase the second new tip pays to the wallet: half of the requested amount - larger than
	// every other coin (so a selection that takes it for eligible picks it first), not larger than the
	// request (such a coin is set aside by the selection)
	cbw = e.want/2 + int64(t.R.Intn(1000))
	// the undisturbed answer before any commit doubles as the dry run that numbers the reads of
	// the query in the current state (the numbering drifts as the wallet's coin set changes)
	e.gate.arm(0)
	a0, _, err := q.run(e)
	n, dryTrace := e.gate.disarm()
	if err != nil {
		t.Fatalf("%s: %v", q.name, err)
	}
	j := 0
	switch {
	case tg.beginread > 0:
		k := 0
		for i, r := range dryTrace {
			if strings.HasPrefix(r, "beginread") && i+1 < len(dryTrace) && dryTrace[i+1] == tg.label {
				k++
				if k == tg.beginread {
					j = i + 1
					break
				}
			}
		}
	case tg.index > 0:
		j = tg.index
	default:
		j = 1 + tg.permille*n/1000
	}
	if os.Getenv("VERIF_C17_DEBUG") != "" && tg.beginread > 0 && tg.beginread <= 3 {
		fmt.Fprintf(os.Stderr, "C17DBG trace head of %s: %v (target beginread %d -> j=%d)\n", q.name, dryTrace[:minInt(len(dryTrace), 10)], tg.beginread, j)
		var views []string
		for i, r := range dryTrace {
			if strings.HasPrefix(r, "beginread") && i+1 < len(dryTrace) {
				views = append(views, fmt.Sprintf("%d:%s", i+1, dryTrace[i+1]))
			}
		}
		fmt.Fprintf(os.Stderr, "C17DBG views of %s (n=%d): %v\n", q.name, n, views)
	}
	if j < 1 || j > n {
		t.Count("gap_beyond_query_length", 1)
		return true
	}
	answers := []string{a0}
	chains := [][]*sim.Block{wd.N.BestChain()}
	e.gate.arm(j)
	type res struct {
		a   string
		tx  *wire.MsgTx
		err error
	}
	done := make(chan res, 1)
	go func() {
		a, tx, err := q.run(e)
		done <- res{a, tx, err}
	}()
	released := false
	release := func() {
		if !released {
			released = true
			close(e.gate.release)
		}
	}
	var early *res
	select {
	case <-e.gate.held:
	case r := <-done:
		// the state changed since the dry run and the query needs fewer reads now
		e.gate.disarm()
		early = &r
	case <-time.After(30 * time.Second):
		e.gate.disarm()
		release()
		t.Inconclusive(q.name + ": gate not reached within 30 s")
		return false
	}
	if early != nil {
		t.Count("gap_beyond_query_length", 1)
		return true
	}
	// how long an undisturbed boundary question may take before it is taken for blocked behind the
	// parked query (the building call asks hundreds of reads; only the verdict's reach depends on it)
	bqWait := 1500 * time.Millisecond
	if strings.HasPrefix(q.name, "AutoCreate") {
		bqWait = 8 * time.Second
	}
	// commits while the query is parked between two reads
	plan := []string{"connect", "connect+connect", "reorg", "connect+reorg", "reorg+connect"}[t.R.Intn(5)]
	if tg.twoTips {
		plan = "connect+connect" // two tips, so that a stale height is two behind; the new tip pays the wallet a large coinbase
	}
	defer func() { wd.CoinbaseToWallet = 0 }()
	placed := 0
	for si, step := range strings.Split(plan, "+") {
		wd.CoinbaseToWallet = 0
		if tg.twoTips && si == 1 {
			wd.CoinbaseToWallet = cbw
		}
		if step == "reorg" && wd.N.Height() > 4 {
			d := t.R.Range(1, 2)
			nb, _, err := wd.Fork(d, d+1, t.R.Range(1, 2))
			if err != nil {
				release()
				t.Fatalf("fork: %v", err)
			}
			if nb == nil {
				continue
			}
			wd.W.Deliver(nb)
		} else {
			nr := t.R.Range(1, 3)
			if tg.twoTips {
				nr = 0 // coinbases only: nothing of the wallet is spent inside the window
			}
			b, err := wd.Extend(nr)
			if err != nil {
				release()
				t.Fatalf("extend: %v", err)
			}
			wd.W.Deliver(b)
		}
		if !wd.W.Quiesce(4 * time.Second) {
			// the follower cannot commit while the query is parked here (a lock the query holds
			// protects this gap): nothing to observe, let it go on
			if os.Getenv("VERIF_C17_DEBUG") != "" {
				fmt.Fprintf(os.Stderr, "C17DBG follower-wait at step %q of %s (gap %d)\n", step, plan, j)
			}
			t.Count("gaps_where_the_follower_must_wait", 1)
			t.Observe("protected_gaps", fmt.Sprintf("%s@%d", q.name, j))
			break
		}
		placed++
		chains = append(chains, wd.N.BestChain())
		// the same question, undisturbed. It may need a lock the parked query holds (UtxoStore.muUtxo):
		// then no further commit is placed, the gate opens, and the blocked call answers as of this
		// boundary once the lock is free.
		bq := make(chan res, 1)
		go func() {
			a, _, err := q.run(e)
			bq <- res{a, nil, err}
		}()
		var br res
		select {
		case br = <-bq:
		case <-time.After(bqWait):
			if os.Getenv("VERIF_C17_DEBUG") != "" {
				fmt.Fprintf(os.Stderr, "C17DBG boundary-query-wait at step %q of %s (gap %d)\n", step, plan, j)
				if j > 80 {
					for _, g := range c20Dump() {
						fmt.Fprintf(os.Stderr, "C17DBG   goroutine %s [%s] top=%s\n%s\n", g.id, g.state, g.top, firstN(g.text, 1500))
					}
				}
			}
			t.Count("boundary_queries_that_waited_for_the_parked_query", 1)
			release()
			select {
			case br = <-bq:
			case <-time.After(60 * time.Second):
				t.Inconclusive(q.name + ": the boundary query does not return within 60 s after the release")
				return false
			}
		}
		if br.err != nil {
			release()
			t.Fatalf("%s between commits: %v", q.name, br.err)
		}
		answers = append(answers, br.a)
		if released {
			break
		}
	}
	release()
	var r res
	select {
	case r = <-done:
	case <-time.After(60 * time.Second):
		t.Inconclusive(q.name + ": the released query does not return within 60 s")
		return false
	}
	if !wd.Settle() {
		t.Inconclusive("handler not idle after the placement")
		return false
	}
	if placed == 0 {
		return true
	}
	t.Count("commits_placed_inside_queries", placed)
	// the final boundary (if the follower finished a pending commit after the release)
	af, _, err := q.run(e)
	if err == nil {
		answers = append(answers, af)
		chains = append(chains, wd.N.BestChain())
	}
	if r.err != nil {
		w := wd.Witness()
		w["query"], w["gap"], w["plan"] = q.name, j, plan
		t.Violate("query-fails-during-sync:"+q.name, fmt.Sprintf("%s fails when %s lands before its read %d: %v", q.name, plan, j, r.err), w)
		return false
	}
	if os.Getenv("VERIF_C17_DEBUG") != "" && r.tx != nil {
		v, _ := sim.ViewOfChain(chains[len(chains)-1])
		maxH := uint64(0)
		for _, in := range r.tx.TxIn {
			if o := v.Outs[in.PreviousOutPoint]; o != nil && o.Height > maxH {
				maxH = o.Height
			}
		}
		nilIn, bigIn := 0, 0
		for _, in := range r.tx.TxIn {
			o := v.Outs[in.PreviousOutPoint]
			if o == nil {
				nilIn++
			} else if o.Value > 50000000000 {
				bigIn++
				fmt.Fprintf(os.Stderr, "C17DBG   big input h=%d val=%d mature-at-final=%v\n", o.Height, o.Value, v.Mature(o))
			}
		}
		fmt.Fprintf(os.Stderr, "C17DBG   inputs unknown to the final view: %d, big inputs %d\n", nilIn, bigIn)
		fmt.Fprintf(os.Stderr, "C17DBG   inputs=%d maxInputHeight=%d tips=%d..%d want=%d\n", len(r.tx.TxIn), maxH, chains[0][len(chains[0])-1].Height, v.Tip, e.want)
	}
	if os.Getenv("VERIF_C17_DEBUG") != "" && tg.twoTips {
		if m, err := wd.W.W.GetUtxo(nil); err == nil {
			var big []string
			var sum int64
			for _, l := range m {
				for _, u := range l {
					if u.Confirmations >= u.Maturity && !u.SpentByUnmined {
						sum += u.Amount.IntValue()
					}
					if u.Amount.IntValue() > 50000000000 {
						big = append(big, fmt.Sprintf("h=%d amt=%d mat=%d conf=%d", u.BlockHeight, u.Amount.IntValue(), u.Maturity, u.Confirmations))
					}
				}
			}
			wb, _ := wd.W.W.WalletBalance(1, true)
			fmt.Fprintf(os.Stderr, "C17DBG   twoTips: want=%d matureSumNow=%d spendableNow=%d big=%v\n", e.want, sum, wb.Spendable.IntValue(), big)
		}
	}
	if os.Getenv("VERIF_C17_DEBUG") != "" {
		fmt.Fprintf(os.Stderr, "C17DBG %s gap=%d/%d tg=%+v plan=%s placed=%d answer=%s\n", q.name, j, n, tg, plan, placed, firstN(r.a, 60))
	}
	distinct := map[string]bool{}
	for _, a := range answers {
		distinct[a] = true
	}
	ok := distinct[r.a]
	if !ok && strings.HasPrefix(r.a, "error: ") {
		// a building call works in several read transactions; refusing to build because a coin it
		// had selected is gone after a reorganisation reports nothing false (the property is about
		// what an answer contains). Counted, not judged.
		t.Count("building_calls_refused_during_sync", 1)
		t.Observe("refusals_during_sync", firstN(r.a, 60))
		return true
	}
	reason := ""
	if r.tx != nil {
		// a built transaction: spendable at one boundary
		ok = false
		for _, ch := range chains {
			if why := c17SpendableAt(r.tx, ch, e.k.Owned); why == "" {
				ok = true
				break
			} else {
				reason = why
			}
		}
	}
	if os.Getenv("VERIF_C17_DEBUG") != "" && r.tx != nil {
		fmt.Fprintf(os.Stderr, "C17DBG   verdict ok=%v reason=%q chains=%d\n", ok, reason, len(chains))
	}
	if len(distinct) > 1 {
		t.Nontrivial(fmt.Sprintf("%s|%d|%s", q.name, j, plan))
		t.Count("placements_with_distinguishable_boundaries", 1)
	} else {
		t.Count("placements_where_all_boundaries_answer_alike", 1)
	}
	if !ok {
		w := wd.Witness()
		w["query"], w["gap_before_read"], w["plan"] = q.name, j, plan
		w["reads_of_the_query"] = tailStr(dryTrace[:minInt(len(dryTrace), j+5)], 60)
		w["answers_at_boundaries"] = answers
		w["answer_of_the_racing_query"] = r.a
		if reason != "" {
			w["why_not_spendable_at_last_boundary_tried"] = reason
		}
		msg := fmt.Sprintf("%s answers with a state that existed at no block boundary: %s committed before its database read %d (%s); boundary answers: %d distinct; got %s", q.name, plan, j, at(dryTrace, j-1), len(distinct), firstN(r.a, 300))
		if r.tx != nil {
			msg = fmt.Sprintf("%s built a transaction whose inputs are spendable at none of the %d boundaries (%s committed before its database read %d): %s", q.name, len(chains), plan, j, reason)
		}
		t.Violate("mixed-boundary:"+q.name, msg, w)
		return false
	}
	return true
}

func at(l []string, i int) string {
	if i >= 0 && i < len(l) {
		return l[i]
	}
	return "?"
}

// c17RaceCase: API goroutines x follower x worker under the race detector.
func c17RaceCase(t *core.T, rounds int) {
	cfg := worldCfg{Maturity: 2, Wallets: 2, Staking: true, BindingOld: true, Gap: 20}
	wd := newWorld(t, cfg)
	defer func() { closeWorld(t, wd) }()
	for i := 0; i < 8; i++ {
		b, err := wd.Extend(t.R.Range(1, 3))
		if err != nil {
			t.Fatalf("extend: %v", err)
		}
		wd.W.Deliver(b)
	}
	if !wd.Settle() {
		t.Inconclusive("handler not idle")
		return
	}
	ids := []string{wd.Keys[0].ID, wd.Keys[1].ID}
	// wallets that exist as mnemonics only and are paid by the chain before they are imported: their
	// import has history to record while blocks keep arriving
	type later struct{ mn, pass string }
	var laters []later
	for len(laters) < rounds/7+1 {
		mn, err := keystore.NewMnemonic(t.R.Bytes(16))
		if err != nil {
			t.Fatalf("mnemonic: %v", err)
		}
		ref, err := refWalletFrom(mn, "c17pass")
		if err != nil || ref.ShortRisk {
			continue
		}
		kb := &sim.WalletKeys{ID: ref.ID(), Pass: "c17pass", Mnemonic: mn, Owned: map[[32]byte]bool{}, Staking: map[[32]byte]bool{}}
		for i := uint32(0); i < 2; i++ {
			if std, _, h, ok := ref.Address(i); ok {
				kb.Std = append(kb.Std, std)
				kb.Hashes = append(kb.Hashes, h)
				kb.Owned[h] = true
			}
		}
		wd.Keys = append(wd.Keys, kb)
		laters = append(laters, later{mn, "c17pass"})
	}
	for i := 0; i < 6; i++ {
		b, err := wd.Extend(t.R.Range(2, 4))
		if err != nil {
			t.Fatalf("extend: %v", err)
		}
		wd.W.Deliver(b)
	}
	if !wd.Settle() {
		t.Inconclusive("handler not idle")
		return
	}
	passes := []string{wd.Keys[0].Pass, wd.Keys[1].Pass}
	// from here on the storage interposers only forward: their own locks must not order the wallet's
	// goroutines (harness synchronisation would hide races from the detector)
	wd.W.DB.SetPassive(true)
	wd.N.Wrap.SetPassive(true)
	defer func() {
		wd.W.DB.SetPassive(false)
		wd.N.Wrap.SetPassive(false)
	}()
	// failpoint-style delays (sleeps only, no synchronisation): the worker lingers after it has given
	// the follower back, the follower lingers between its database commit and its in-memory update
	// The follower raises a flag while it lingers between commit and in-memory update; the worker,
	// after giving the follower back, lingers until it sees the flag (or 30 ms pass) and then goes on.
	// The flag orders nothing that matters: it is stored BEFORE the follower's in-memory update and
	// read BEFORE the worker's, so the two updates themselves stay unordered unless the wallet's own
	// locks order them.
	var atCommitted int32
	wd.W.Points.SetFn(func(name string) {
		switch name {
		case "resume.after":
			for i := 0; i < 300 && atomic.LoadInt32(&atCommitted) == 0; i++ {
				time.Sleep(100 * time.Microsecond)
			}
		case "block.committed":
			atomic.StoreInt32(&atCommitted, 1)
			time.Sleep(3 * time.Millisecond)
			atomic.StoreInt32(&atCommitted, 0)
		}
	})
	defer wd.W.Points.SetFn(nil)
	stop := make(chan struct{})
	var wg sync.WaitGroup
	var calls int64
	var cmu sync.Mutex
	api := func(fn func(r *core.Rand), seed uint64) {
		wg.Add(1)
		go func() {
			defer wg.Done()
			r := core.NewRand(seed)
			for {
				select {
				case <-stop:
					return
				default:
				}
				fn(r)
				cmu.Lock()
				calls++
				cmu.Unlock()
			}
		}()
	}
	W := wd.W.W
	// most blocks are preceded by the unconfirmed delivery of some of their transactions: only
	// transactions the wallet knew as pending enter the follower's in-memory bookkeeping when they
	// confirm (h.mempool / h.expiredMempool), and only those are touched again by a reorganisation
	deliver := func(b *sim.Block) {
		for i, tx := range b.Msg.Transactions {
			if i > 0 && t.R.Chance(60) {
				wd.W.DeliverTx(tx)
				t.Count("unconfirmed_deliveries_before_their_block", 1)
			}
		}
		wd.W.Deliver(b)
	}
	api(func(r *core.Rand) { W.UseWallet(ids[r.Intn(2)]) }, t.R.Uint64())
	api(func(r *core.Rand) { W.WalletBalance(uint32(r.Intn(3)), r.Bool()) }, t.R.Uint64())
	api(func(r *core.Rand) { W.AddressBalance(1, nil); W.GetUtxo(nil) }, t.R.Uint64())
	api(func(r *core.Rand) { W.GetAddresses(uint16(r.Intn(2))); W.Wallets(); W.GetAllAddressesWithPubkey() }, t.R.Uint64())
	api(func(r *core.Rand) {
		if r.Chance(10) {
			W.NewAddress(uint16(r.Intn(2)))
		}
		W.GetStakingHistory(r.Bool())
		W.GetBindingHistory(r.Bool())
		W.GetTxHistory(5, "")
	}, t.R.Uint64())
	payTo := sim.StdAddr(wd.StrangerPub())
	api(func(r *core.Rand) {
		amt, _ := massutil.NewAmountFromInt(int64(10000 + r.Intn(100000)))
		raw, _, err := W.AutoCreateRawTransaction(map[string]massutil.Amount{payTo: amt}, 0, massutil.ZeroAmount(), "", "", nil)
		if err == nil {
			if tx, derr := decodeTxHex(raw); derr == nil {
				i := r.Intn(2)
				W.SignRawTx([]byte(passes[i]), "ALL", tx)
				W.ClearUsedUTXOMark(tx)
			}
		}
	}, t.R.Uint64())
	api(func(r *core.Rand) { W.SyncedTo(); W.CurrentWallet(); W.CheckReady(ids[r.Intn(2)]) }, t.R.Uint64())
	// wallet churn: fresh wallets are created, selected, given addresses and removed again while the
	// other goroutines read the address book, balances and wallet list (state-changing API calls against
	// reading ones, not only against the follower)
	var made []string
	api(func(r *core.Rand) {
		if len(made) < 3 && r.Chance(25) {
			if id, _, _, err := W.CreateWallet("c17churn", "c", 128); err == nil {
				made = append(made, id)
			}
		}
		if len(made) > 0 {
			W.UseWallet(made[r.Intn(len(made))])
			for k := 0; k < r.Range(1, 5); k++ {
				W.NewAddress(uint16(r.Intn(2)))
			}
			W.GetAllAddressesWithPubkey()
			if r.Chance(6) && W.RemoveWallet(made[0], "c17churn") == nil {
				made = made[1:]
			}
		}
	}, t.R.Uint64())
	// follower and worker: blocks, reorgs, an import and a removal
	var extra []string
	for i := 0; i < rounds && !t.Failed(); i++ {
		switch {
		case i%7 == 3:
			if len(laters) > 0 {
				l := laters[0]
				laters = laters[1:]
				if sum, err := W.ImportWalletWithMnemonic(&keystore.WalletParams{Mnemonic: l.mn, PrivatePassphrase: []byte(l.pass), Remarks: "r", AddressGapLimit: 20}); err == nil {
					extra = append(extra, sum.WalletID)
				}
				// tips arrive while the import runs
				for j := 0; j < 2; j++ {
					if b, err := wd.Extend(t.R.Range(1, 2)); err == nil {
						deliver(b)
					}
				}
			}
		case i%7 == 6 && len(extra) > 0:
			if W.RemoveWallet(extra[0], "c17pass") == nil {
				extra = extra[1:]
				// a reorganisation and tips arrive while the removal rounds run: between two rounds the
				// follower re-adds the transactions of the rolled-back blocks to the in-memory pending
				// set while the worker takes the removed wallet's transactions out of it
				if wd.N.Height() > 4 {
					if nb, _, err := wd.Fork(t.R.Range(1, 2), 2, 2); err == nil && nb != nil {
						wd.W.Deliver(nb)
					}
				}
				for j := 0; j < 2; j++ {
					if b, err := wd.Extend(t.R.Range(1, 2)); err == nil {
						deliver(b)
					}
				}
				t.Count("removals_overlapped_by_a_reorganisation", 1)
			}
		case i%5 == 4 && wd.N.Height() > 4:
			if nb, _, err := wd.Fork(1, 2, 1); err == nil && nb != nil {
				wd.W.Deliver(nb)
			}
		default:
			b, err := wd.Extend(t.R.Range(1, 3))
			if err != nil {
				t.Fatalf("extend: %v", err)
			}
			deliver(b)
		}
		t.Eval(1)
		time.Sleep(time.Duration(t.R.Intn(3)) * time.Millisecond)
	}
	close(stop)
	wg.Wait()
	wd.Settle()
	wd.W.WorkerIdle(60 * time.Second)
	t.Count("api_calls_concurrent_with_sync", int(calls))
	t.Nontrivial(fmt.Sprintf("race-workload|%d", t.Index))
	t.Sample(map[string]interface{}{"api_calls": calls, "rounds": rounds})
	if fe := sim.FatalEvents(); len(fe) > 0 {
		w := wd.Witness()
		w["fatal_events"] = fe
		t.Violate("follower-died", "a wallet goroutine died during the concurrent workload: "+firstLineOf(fe[0]), w)
	}
}

func init() {
	core.Register(&core.Property{
		ID:    "C17",
		Level: "exploration",
		Rule: "placement cases: a wallet with coinbase/staking coins one or two blocks from maturity; for each of four queries (WalletBalance(detail), AddressBalance, GetUtxo, AutoCreateRawTransaction) a dry run counts its database reads; for every gap before read j [quick: ≤ 14 gaps per query, thorough: all] the query is parked there through the database interposer, 1–2 tips drawn from {connect, reorg} are announced and committed, the same question is asked undisturbed after every commit, then the query goes on. " +
			"Oracle: its answer equals the answer at one of the boundaries (before, between, after); a built transaction spends only coins that are unspent, mature and unlocked at one single boundary (reference ledger). A gap in which the follower cannot commit within 4 s is counted as protected, not judged. " +
			"race cases: seven API goroutines (use-wallet switching, balances, utxo, addresses, histories, create+sign, status) run against blocks, reorgs, an import and a removal under the Go race detector; every report with a wallet frame is a violation (only exclusion: both accesses inside the logging libraries). " +
			"evaluations = placements + race rounds; distinct_nontrivial = placements in which at least two boundaries give different answers",
		Assumptions: []string{"boundary answers are taken from the wallet itself in undisturbed calls (their correctness is C01's subject)", "the race detector only sees the interleavings that occur; placements are exhaustive over read gaps, not over commit contents"},
		CaseTimeout: 1700 * time.Second,
		Race:        true,
		UseRace:     func(tier string, idx int) bool { return idx%4 == 3 },
		Cases: func(tier string, seed int64) int {
			if tier == "thorough" {
				return 96
			}
			return 16
		},
		Run: func(t *core.T) {
			if t.Index%4 == 3 {
				rounds := 300
				if t.Tier == "thorough" {
					rounds = 1200
				}
				c17RaceCase(t, rounds)
				return
			}
			max := 14
			if t.Tier == "thorough" {
				max = 100000
			}
			c17Case(t, max)
		},
	})
}
