package props

import (
	"bytes"
	"errors"
	"fmt"
	"os"
	"path/filepath"
	"sort"
	"strings"
	"sync"
	"sync/atomic"
	"time"

	"github.com/anishathalye/porcupine"
	mwdb "massnet.org/mass-wallet/masswallet/db"
	_ "massnet.org/mass-wallet/masswallet/db/ldb"

	"verifharness/core"
)

// C11 — the wallet database gives atomic, isolated, ordered key/value transactions.
// (1) sequential: nested in-memory map model with a pending overlay per write transaction,
//     compared after every operation; (2) concurrent: whole transactions from several goroutines,
//     history checked with porcupine against a sequential map.

type c11Bucket struct {
	kv   map[string]string
	subs map[string]*c11Bucket
}

func newC11Bucket() *c11Bucket {
	return &c11Bucket{kv: map[string]string{}, subs: map[string]*c11Bucket{}}
}

func (b *c11Bucket) clone() *c11Bucket {
	n := newC11Bucket()
	for k, v := range b.kv {
		n.kv[k] = v
	}
	for k, s := range b.subs {
		n.subs[k] = s.clone()
	}
	return n
}

func (b *c11Bucket) at(path []string) *c11Bucket {
	cur := b
	for _, p := range path {
		cur = cur.subs[p]
		if cur == nil {
			return nil
		}
	}
	return cur
}

func (b *c11Bucket) paths(prefix []string, out *[][]string) {
	names := make([]string, 0, len(b.subs))
	for n := range b.subs {
		names = append(names, n)
	}
	sort.Strings(names)
	for _, n := range names {
		p := append(append([]string{}, prefix...), n)
		*out = append(*out, p)
		b.subs[n].paths(p, out)
	}
}

var c11Names = []string{"t", "m", "1", "2", "b", "u", "mi", "a b", "k", "ü", "10", "0"}
var c11BadNames = []string{"", "a_b", "_", "t_", strings.Repeat("x", 257)}

func c11Key(r *core.Rand) []byte {
	pool := [][]byte{
		[]byte("a"), []byte("b"), []byte("ab"), []byte("a_"), []byte("_"), []byte("1_x"), []byte("2_t_m"), []byte("m_k"), []byte("t_m_k"),
		{0xff}, {0xff, 0xff}, []byte("a\xff"), []byte("a\xff\xff"), {0x00}, {0x00, 0x00}, []byte("a\x00"), []byte("b_1_t"), []byte("k"),
		[]byte("1"), []byte("_a"), []byte("a_b"), []byte("`"), []byte("^"),
	}
	switch r.Intn(10) {
	case 0:
		return r.Bytes(r.Range(1, 40))
	case 1:
		k := append([]byte{}, pool[r.Intn(len(pool))]...)
		return append(k, pool[r.Intn(len(pool))]...)
	default:
		return pool[r.Intn(len(pool))]
	}
}

func c11Value(r *core.Rand, tag int) []byte {
	switch r.Intn(12) {
	case 0:
		return append([]byte(fmt.Sprintf("v%d:", tag)), r.Bytes(1024)...)
	case 1:
		return []byte{0}
	default:
		return []byte(fmt.Sprintf("v%d", tag))
	}
}

type c11Seq struct {
	t       *core.T
	db      mwdb.DB
	dir     string
	comm    *c11Bucket // committed model
	ops     []string   // op log (witness)
	tag     int
	created bool
}

func (s *c11Seq) log(f string, a ...interface{}) {
	if len(s.ops) < 5000 {
		s.ops = append(s.ops, fmt.Sprintf(f, a...))
	}
}

func (s *c11Seq) fail(sig, f string, a ...interface{}) {
	w := s.ops
	if len(w) > 60 {
		w = w[len(w)-60:]
	}
	s.t.Violate(sig, fmt.Sprintf(f, a...), map[string]interface{}{"last_ops": w})
}

func (s *c11Seq) open() bool {
	var err error
	if !s.created {
		s.db, err = mwdb.CreateDB("leveldb", s.dir)
		s.created = true
	} else {
		s.db, err = mwdb.OpenDB("leveldb", s.dir)
	}
	if err != nil {
		s.fail("open-failed", "open/create of the database failed: %v", err)
		return false
	}
	return true
}

func bucketOf(tx mwdb.ReadTransaction, path []string) mwdb.Bucket {
	if len(path) == 0 {
		return nil
	}
	b := tx.TopLevelBucket(path[0])
	for _, p := range path[1:] {
		if b == nil {
			return nil
		}
		b = b.Bucket(p)
	}
	return b
}

func sortedKeys(m map[string]string) []string {
	ks := make([]string, 0, len(m))
	for k := range m {
		ks = append(ks, k)
	}
	sort.Strings(ks)
	return ks
}

func namesEqualAsSet(got []string, want map[string]*c11Bucket) bool {
	if len(got) != len(want) {
		return false
	}
	seen := map[string]bool{}
	for _, g := range got {
		if _, ok := want[g]; !ok || seen[g] {
			return false
		}
		seen[g] = true
	}
	return true
}

// checkBucketReads compares every read operation of one bucket with the model.
// ordered: demand ascending order (read transactions / committed data).
func (s *c11Seq) checkBucketReads(b mwdb.Bucket, mb *c11Bucket, path []string, ordered bool, inWrite bool) {
	t := s.t
	r := t.R
	pstr := strings.Join(path, "/")
	// point reads: a few model keys + a few random keys
	keys := sortedKeys(mb.kv)
	for n := 0; n < 4; n++ {
		var k []byte
		if len(keys) > 0 && r.Bool() {
			k = []byte(keys[r.Intn(len(keys))])
		} else {
			k = c11Key(r)
		}
		t.Eval(1)
		got, err := b.Get(k)
		want, ok := mb.kv[string(k)]
		if err != nil || (ok && !bytes.Equal(got, []byte(want))) || (!ok && got != nil) {
			s.fail("get-mismatch", "Get(%s,%q)=%q,%v model has %v %q (in write tx: %v)", pstr, k, trunc(got), err, ok, trunc([]byte(want)), inWrite)
		}
	}
	// prefix reads
	for n := 0; n < 3; n++ {
		var prefix []byte
		switch r.Intn(4) {
		case 0:
			prefix = nil
		case 1:
			if len(keys) > 0 {
				k := keys[r.Intn(len(keys))]
				prefix = []byte(k[:r.Intn(len(k)+1)])
			}
		default:
			prefix = c11Key(r)
			if len(prefix) > 2 {
				prefix = prefix[:r.Range(1, 2)]
			}
		}
		t.Eval(1)
		ents, err := b.GetByPrefix(prefix)
		if err != nil {
			s.fail("prefix-error", "GetByPrefix(%s,%q) error %v", pstr, prefix, err)
			continue
		}
		var want []string
		for _, k := range keys {
			if strings.HasPrefix(k, string(prefix)) {
				want = append(want, k)
			}
		}
		got := make([]string, 0, len(ents))
		for _, e := range ents {
			got = append(got, string(e.Key))
			if mb.kv[string(e.Key)] != string(e.Value) {
				s.fail("prefix-value-mismatch", "GetByPrefix(%s,%q): key %q value %q model %q", pstr, prefix, e.Key, trunc(e.Value), trunc([]byte(mb.kv[string(e.Key)])))
			}
		}
		cmp := append([]string{}, got...)
		if !ordered {
			sort.Strings(cmp)
		}
		if !equalStrings(cmp, want) {
			sig := "prefix-set-mismatch"
			if ordered {
				sort.Strings(got)
				if equalStrings(got, want) {
					sig = "prefix-order-mismatch"
				}
			}
			s.fail(sig, "GetByPrefix(%s,%q)=%q model %q (in write tx: %v)", pstr, prefix, cmp, want, inWrite)
		}
	}
	// bucket listing
	t.Eval(1)
	names, err := b.BucketNames()
	if err != nil || !namesEqualAsSet(names, mb.subs) {
		s.fail("bucketnames-mismatch", "BucketNames(%s)=%q,%v model %q (in write tx: %v)", pstr, names, err, subNames(mb), inWrite)
	}
	// iterators: only over committed data
	if ordered {
		s.checkIterators(b, mb, pstr)
	}
}

func subNames(b *c11Bucket) []string {
	var n []string
	for k := range b.subs {
		n = append(n, k)
	}
	sort.Strings(n)
	return n
}

func equalStrings(a, b []string) bool {
	if len(a) != len(b) {
		return false
	}
	for i := range a {
		if a[i] != b[i] {
			return false
		}
	}
	return true
}

func trunc(b []byte) string {
	if len(b) > 24 {
		return fmt.Sprintf("%q…(%d)", b[:24], len(b))
	}
	return fmt.Sprintf("%q", b)
}

func (s *c11Seq) checkIterators(b mwdb.Bucket, mb *c11Bucket, pstr string) {
	t := s.t
	r := t.R
	keys := sortedKeys(mb.kv)
	for n := 0; n < 3; n++ {
		var rng *mwdb.Range
		var lo, hi string
		hasHi := false
		kind := ""
		switch r.Intn(4) {
		case 0:
			rng = nil
			kind = "full"
		case 1:
			p := c11Key(r)
			if len(p) > 2 {
				p = p[:r.Range(1, 2)]
			}
			rng = mwdb.BytesPrefix(append([]byte{}, p...))
			lo = string(p)
			// model of a prefix range: keys with that prefix
			kind = "prefix:" + string(p)
		case 2:
			a, c := c11Key(r), c11Key(r)
			if bytes.Compare(a, c) > 0 {
				a, c = c, a
			}
			if bytes.Equal(a, c) {
				c = append(c, 0)
			}
			rng = &mwdb.Range{Start: append([]byte{}, a...), Limit: append([]byte{}, c...)}
			lo, hi, hasHi = string(a), string(c), true
			kind = "range"
		default:
			a := c11Key(r)
			rng = &mwdb.Range{Start: append([]byte{}, a...)}
			lo = string(a)
			kind = "from"
		}
		var want []string
		for _, k := range keys {
			switch {
			case strings.HasPrefix(kind, "prefix:"):
				if strings.HasPrefix(k, lo) {
					want = append(want, k)
				}
			case kind == "full":
				want = append(want, k)
			default:
				if k >= lo && (!hasHi || k < hi) {
					want = append(want, k)
				}
			}
		}
		t.Eval(1)
		it := b.NewIterator(rng)
		var got []string
		for it.Next() {
			k := string(it.Key())
			got = append(got, k)
			if string(it.Value()) != mb.kv[k] {
				s.fail("iterator-value-mismatch", "iterator(%s,%s): key %q value %q model %q", pstr, kind, k, trunc(it.Value()), trunc([]byte(mb.kv[k])))
			}
			if len(got) > len(keys)+10 {
				break
			}
		}
		if err := it.Error(); err != nil {
			s.fail("iterator-error", "iterator error %v", err)
		}
		if !equalStrings(got, want) {
			s.fail("iterator-mismatch:"+strings.SplitN(kind, ":", 2)[0], "iterator(%s,%s lo=%q hi=%q)=%q model %q", pstr, kind, lo, hi, got, want)
		}
		// Seek inside the range
		if len(want) > 0 {
			target := want[r.Intn(len(want))]
			seekKey := target
			if r.Bool() && len(target) > 1 { // a key just below an existing one
				seekKey = target[:len(target)-1]
				if seekKey < lo || (strings.HasPrefix(kind, "prefix:") && !strings.HasPrefix(seekKey, lo)) {
					seekKey = target
				}
			}
			var wantAfter []string
			for _, k := range want {
				if k >= seekKey {
					wantAfter = append(wantAfter, k)
				}
			}
			t.Eval(1)
			if ok := it.Seek([]byte(seekKey)); ok != (len(wantAfter) > 0) {
				s.fail("seek-mismatch", "Seek(%q) in iterator(%s,%s)=%v, model expects %d entries from there", seekKey, pstr, kind, ok, len(wantAfter))
			} else if ok {
				gotAfter := []string{string(it.Key())}
				for it.Next() {
					gotAfter = append(gotAfter, string(it.Key()))
					if len(gotAfter) > len(keys)+10 {
						break
					}
				}
				if !equalStrings(gotAfter, wantAfter) {
					s.fail("seek-mismatch", "after Seek(%q) in iterator(%s,%s): %q model %q", seekKey, pstr, kind, gotAfter, wantAfter)
				}
			}
		}
		it.Release()
	}
}

// verifyAll compares the whole committed content through a read transaction.
func (s *c11Seq) verifyAll(phase string) {
	err := mwdb.View(s.db, func(tx mwdb.ReadTransaction) error {
		s.t.Eval(1)
		names, err := tx.BucketNames()
		if err != nil || !namesEqualAsSet(names, s.comm.subs) {
			s.fail("bucketnames-mismatch", "%s: top-level BucketNames=%q,%v model %q", phase, names, err, subNames(s.comm))
		}
		var paths [][]string
		s.comm.paths(nil, &paths)
		for _, p := range paths {
			b := bucketOf(tx, p)
			if b == nil {
				s.fail("bucket-missing", "%s: committed bucket %v not found", phase, p)
				continue
			}
			s.checkBucketReads(b, s.comm.at(p), p, true, false)
		}
		// buckets that must not exist
		for n := 0; n < 3; n++ {
			name := c11Names[s.t.R.Intn(len(c11Names))]
			if _, ok := s.comm.subs[name]; !ok {
				if tx.TopLevelBucket(name) != nil {
					s.fail("phantom-bucket", "%s: TopLevelBucket(%q) exists, model has none", phase, name)
				}
			}
		}
		return nil
	})
	if err != nil {
		s.fail("view-error", "View failed: %v", err)
	}
}

var errC11Injected = errors.New("injected error return")

// writeTx runs one write transaction of random operations against db and model.
func (s *c11Seq) writeTx() {
	t := s.t
	r := t.R
	pend := s.comm.clone()
	outcome := r.Pick(6, 2, 2) // commit, rollback, error return through Update
	nops := r.Range(1, 25)
	dirty := map[string]bool{} // bucket paths with pending changes (no iterator checks there)
	body := func(tx mwdb.DBTransaction) error {
		for i := 0; i < nops && !t.Failed(); i++ {
			var paths [][]string
			pend.paths(nil, &paths)
			op := r.Pick(3, 4, 14, 6, 6, 1, 2, 2)
			if len(paths) == 0 {
				op = 0
			}
			switch op {
			case 0: // create top-level bucket
				name := c11Names[r.Intn(len(c11Names))]
				if r.Chance(10) {
					name = c11BadNames[r.Intn(len(c11BadNames))]
				}
				s.log("CreateTopLevelBucket(%q)", name)
				t.Eval(1)
				_, err := tx.CreateTopLevelBucket(name)
				_, exists := pend.subs[name]
				bad := name == "" || strings.Contains(name, "_") || len(name) > 256
				switch {
				case bad:
					if err == nil {
						s.fail("bad-bucket-name-accepted", "CreateTopLevelBucket(%q) accepted", name)
					}
				case exists:
					// creating an existing bucket: an error is expected but the state is what matters
				default:
					if err != nil {
						s.fail("create-bucket-failed", "CreateTopLevelBucket(%q): %v", name, err)
					} else {
						pend.subs[name] = newC11Bucket()
					}
				}
			case 1: // create sub bucket
				p := paths[r.Intn(len(paths))]
				if len(p) >= 4 {
					continue
				}
				name := c11Names[r.Intn(len(c11Names))]
				if r.Chance(10) {
					name = c11BadNames[r.Intn(len(c11BadNames))]
				}
				b := bucketOf(tx, p)
				if b == nil {
					s.fail("bucket-missing", "bucket %v not found inside write tx", p)
					return nil
				}
				s.log("NewBucket(%v,%q)", p, name)
				t.Eval(1)
				_, err := b.NewBucket(name)
				mb := pend.at(p)
				_, exists := mb.subs[name]
				bad := name == "" || strings.Contains(name, "_") || len(name) > 256
				switch {
				case bad:
					if err == nil {
						s.fail("bad-bucket-name-accepted", "NewBucket(%q) accepted", name)
					}
				case exists:
				default:
					if err != nil {
						s.fail("create-bucket-failed", "NewBucket(%v,%q): %v", p, name, err)
					} else {
						mb.subs[name] = newC11Bucket()
					}
				}
			case 2: // put
				p := paths[r.Intn(len(paths))]
				b := bucketOf(tx, p)
				if b == nil {
					s.fail("bucket-missing", "bucket %v not found inside write tx", p)
					return nil
				}
				k := c11Key(r)
				s.tag++
				v := c11Value(r, s.tag)
				if r.Chance(4) {
					k = nil
				}
				if r.Chance(4) {
					v = nil
				}
				s.log("Put(%v,%q,%s)", p, k, trunc(v))
				t.Eval(1)
				err := b.Put(k, v)
				if len(k) == 0 || len(v) == 0 {
					if err == nil {
						s.fail("empty-key-or-value-accepted", "Put(%q,%q) accepted", k, v)
					}
				} else if err != nil {
					s.fail("put-failed", "Put: %v", err)
				} else {
					pend.at(p).kv[string(k)] = string(v)
					dirty[strings.Join(p, "/")] = true
				}
			case 3: // delete
				p := paths[r.Intn(len(paths))]
				b := bucketOf(tx, p)
				if b == nil {
					s.fail("bucket-missing", "bucket %v not found inside write tx", p)
					return nil
				}
				mb := pend.at(p)
				var k []byte
				ks := sortedKeys(mb.kv)
				if len(ks) > 0 && r.Chance(70) {
					k = []byte(ks[r.Intn(len(ks))])
				} else {
					k = c11Key(r)
				}
				s.log("Delete(%v,%q)", p, k)
				t.Eval(1)
				if err := b.Delete(k); err != nil {
					s.fail("delete-failed", "Delete: %v", err)
				}
				delete(mb.kv, string(k))
				dirty[strings.Join(p, "/")] = true
			case 4: // reads inside the transaction (read-your-writes)
				p := paths[r.Intn(len(paths))]
				b := bucketOf(tx, p)
				if b == nil {
					s.fail("bucket-missing", "bucket %v not found inside write tx", p)
					return nil
				}
				s.log("reads(%v)", p)
				s.checkBucketReads(b, pend.at(p), p, false, true)
				// an untouched bucket still iterates in order inside a write transaction
				anyDirty := len(dirty) > 0
				if !anyDirty {
					s.checkIterators(b, pend.at(p), strings.Join(p, "/"))
				}
			case 5: // clear
				p := paths[r.Intn(len(paths))]
				b := bucketOf(tx, p)
				if b == nil {
					s.fail("bucket-missing", "bucket %v not found inside write tx", p)
					return nil
				}
				s.log("Clear(%v)", p)
				t.Eval(1)
				if err := b.Clear(); err != nil {
					s.fail("clear-failed", "Clear: %v", err)
				}
				pend.at(p).kv = map[string]string{}
				dirty[strings.Join(p, "/")] = true
			case 6: // delete sub bucket (with everything below)
				p := paths[r.Intn(len(paths))]
				mb := pend.at(p)
				if len(mb.subs) == 0 {
					continue
				}
				name := subNames(mb)[r.Intn(len(mb.subs))]
				b := bucketOf(tx, p)
				if b == nil {
					s.fail("bucket-missing", "bucket %v not found inside write tx", p)
					return nil
				}
				s.log("DeleteBucket(%v,%q)", p, name)
				t.Eval(1)
				if err := b.DeleteBucket(name); err != nil {
					s.fail("deletebucket-failed", "DeleteBucket: %v", err)
				}
				delete(mb.subs, name)
				dirty["*"] = true
			case 7: // transaction-level listing
				t.Eval(1)
				names, err := tx.BucketNames()
				if err != nil || !namesEqualAsSet(names, pend.subs) {
					s.fail("bucketnames-mismatch", "tx.BucketNames()=%q,%v model %q (in write tx)", names, err, subNames(pend))
				}
			}
		}
		if outcome == 2 {
			return errC11Injected
		}
		return nil
	}
	switch outcome {
	case 0:
		s.log("BEGIN (commit)")
		if err := mwdb.Update(s.db, body); err != nil {
			s.fail("commit-failed", "Update returned %v", err)
			return
		}
		s.comm = pend
		s.log("COMMIT")
		t.Count("tx_committed", 1)
	case 1:
		s.log("BEGIN (rollback)")
		tx, err := s.db.BeginTx()
		if err != nil {
			s.fail("begin-failed", "BeginTx: %v", err)
			return
		}
		body(tx)
		tx.Rollback()
		s.log("ROLLBACK")
		t.Count("tx_rolled_back", 1)
	case 2:
		s.log("BEGIN (error return)")
		if err := mwdb.Update(s.db, body); err != errC11Injected {
			s.fail("update-error-swallowed", "Update returned %v instead of the callback's error", err)
		}
		s.log("ERROR-RETURN")
		t.Count("tx_error_returned", 1)
	}
}

func c11Sequential(t *core.T, steps int) {
	s := &c11Seq{t: t, dir: filepath.Join(t.Dir, "db"), comm: newC11Bucket()}
	if !s.open() {
		return
	}
	defer func() {
		if s.db != nil {
			s.db.Close()
		}
	}()
	shape := []string{}
	for i := 0; i < steps && !t.Failed(); i++ {
		switch t.R.Pick(10, 3, 1) {
		case 0:
			s.writeTx()
		case 1:
			s.verifyAll("read-tx")
		case 2:
			s.log("CLOSE/REOPEN")
			if err := s.db.Close(); err != nil {
				s.fail("close-failed", "Close: %v", err)
			}
			s.db = nil
			if !s.open() {
				return
			}
			s.verifyAll("after-reopen")
			t.Count("reopens", 1)
			shape = append(shape, "R")
		}
	}
	if !t.Failed() {
		s.verifyAll("final")
	}
	var paths [][]string
	s.comm.paths(nil, &paths)
	maxDepth := 0
	nkeys := 0
	for _, p := range paths {
		if len(p) > maxDepth {
			maxDepth = len(p)
		}
		nkeys += len(s.comm.at(p).kv)
	}
	t.Max("bucket_depth", maxDepth)
	t.Max("committed_keys", nkeys)
	if len(paths) >= 2 && nkeys >= 3 {
		t.Nontrivial(fmt.Sprintf("seq:buckets=%d:depth=%d:keys=%d:reopen=%d", len(paths), maxDepth, nkeys/4, len(shape)))
	}
	w := s.ops
	if len(w) > 25 {
		w = w[:25]
	}
	t.Sample(map[string]interface{}{"kind": "sequential", "first_ops": w})
}

// ---- concurrent part --------------------------------------------------------------------

type c11In struct {
	Write  bool
	Puts   [4]string // per key: "" = untouched, "\x00del" = delete, else value
	Commit bool
}
type c11Out struct {
	Snap [4]string // read result
}

const c11Del = "\x00del"

var c11ConcKeys = [4]string{"a", "a_", "b", "\xff"}

func c11Concurrent(t *core.T, clients, perClient int) {
	dir := filepath.Join(t.Dir, "cdb")
	db, err := mwdb.CreateDB("leveldb", dir)
	if err != nil {
		t.Fatalf("create db: %v", err)
	}
	defer db.Close()
	if err := mwdb.Update(db, func(tx mwdb.DBTransaction) error {
		_, err := tx.CreateTopLevelBucket("c")
		return err
	}); err != nil {
		t.Fatalf("create bucket: %v", err)
	}
	var clock int64
	var mu sync.Mutex
	var ops []porcupine.Operation
	var wg sync.WaitGroup
	seeds := make([]uint64, clients)
	for i := range seeds {
		seeds[i] = t.R.Uint64()
	}
	var tagCtr int64
	for c := 0; c < clients; c++ {
		wg.Add(1)
		go func(c int) {
			defer wg.Done()
			r := core.NewRand(seeds[c])
			for n := 0; n < perClient; n++ {
				var in c11In
				var out c11Out
				if r.Chance(55) {
					in.Write = true
					in.Commit = r.Chance(75)
					for k := 0; k < 4; k++ {
						switch r.Intn(3) {
						case 0:
							in.Puts[k] = fmt.Sprintf("c%d-%d", c, atomic.AddInt64(&tagCtr, 1))
						case 1:
							if r.Bool() {
								in.Puts[k] = c11Del
							}
						}
					}
				}
				call := atomic.AddInt64(&clock, 1)
				if in.Write {
					tx, err := db.BeginTx()
					if err != nil {
						t.Violate("begin-failed", err.Error(), nil)
						return
					}
					b := tx.TopLevelBucket("c")
					for k := 0; k < 4; k++ {
						switch in.Puts[k] {
						case "":
						case c11Del:
							b.Delete([]byte(c11ConcKeys[k]))
						default:
							b.Put([]byte(c11ConcKeys[k]), []byte(in.Puts[k]))
						}
						if r.Chance(30) {
							time.Sleep(time.Duration(r.Intn(200)) * time.Microsecond)
						}
					}
					if in.Commit {
						if err := tx.Commit(); err != nil {
							t.Violate("commit-failed", err.Error(), nil)
						}
					} else {
						tx.Rollback()
					}
				} else {
					mwdb.View(db, func(tx mwdb.ReadTransaction) error {
						ents, err := tx.TopLevelBucket("c").GetByPrefix(nil)
						if err != nil {
							t.Violate("prefix-error", err.Error(), nil)
						}
						for _, e := range ents {
							for k := 0; k < 4; k++ {
								if string(e.Key) == c11ConcKeys[k] {
									out.Snap[k] = string(e.Value)
								}
							}
						}
						return nil
					})
				}
				ret := atomic.AddInt64(&clock, 1)
				mu.Lock()
				ops = append(ops, porcupine.Operation{ClientId: c, Input: in, Call: call, Output: out, Return: ret})
				mu.Unlock()
			}
		}(c)
	}
	wg.Wait()
	model := porcupine.Model{
		Init: func() interface{} { return [4]string{} },
		Step: func(state, input, output interface{}) (bool, interface{}) {
			st := state.([4]string)
			in := input.(c11In)
			if in.Write {
				if !in.Commit {
					return true, st
				}
				for k := 0; k < 4; k++ {
					switch in.Puts[k] {
					case "":
					case c11Del:
						st[k] = ""
					default:
						st[k] = in.Puts[k]
					}
				}
				return true, st
			}
			return output.(c11Out).Snap == st, st
		},
		Equal: func(a, b interface{}) bool { return a.([4]string) == b.([4]string) },
		DescribeOperation: func(input, output interface{}) string {
			in := input.(c11In)
			if in.Write {
				return fmt.Sprintf("write(%q commit=%v)", in.Puts, in.Commit)
			}
			return fmt.Sprintf("read -> %q", output.(c11Out).Snap)
		},
	}
	t.Eval(len(ops))
	res, _ := porcupine.CheckOperationsVerbose(model, ops, 60*time.Second)
	switch res {
	case porcupine.Illegal:
		var w []string
		sort.Slice(ops, func(i, j int) bool { return ops[i].Call < ops[j].Call })
		for _, o := range ops {
			w = append(w, fmt.Sprintf("client %d [%d,%d] %s", o.ClientId, o.Call, o.Return, model.DescribeOperation(o.Input, o.Output)))
		}
		t.Violate("history-not-linearizable", "concurrent transaction history is not linearizable w.r.t. a sequential map (a reader saw part of a commit, a rolled-back write, or a lost commit)", w)
	case porcupine.Unknown:
		t.Inconclusive("porcupine timed out")
	default:
		t.Count("histories_linearizable", 1)
		t.Count("history_operations", len(ops))
		t.Nontrivial(fmt.Sprintf("conc:%d:%d", clients, t.Index))
	}
	if !t.Failed() {
		t.Sample(map[string]interface{}{"kind": "concurrent", "clients": clients, "ops": len(ops), "verdict": fmt.Sprint(res)})
	}
	_ = os.RemoveAll(dir)
}

func init() {
	type plan struct{ seq, seqSteps, conc int }
	plans := map[string]plan{
		"quick":    {seq: 300, seqSteps: 40, conc: 200},
		"thorough": {seq: 20000, seqSteps: 60, conc: 5000},
	}
	core.Register(&core.Property{
		ID:    "C11",
		Level: "exploration",
		Rule: "sequential cases: seeded sequences of write transactions (create/delete nested buckets to depth 4, put, delete, clear, reads inside the transaction; ended by commit, rollback or an error return through Update), read transactions and close/reopen, " +
			"over hostile keys (binary, '_', '1_x', '2_t_m', 0xff-suffixed, empty must be rejected) — after every operation the real result is compared with a nested-map model (point reads, prefix reads as sets inside write transactions and ordered on committed data, bucket listings, prefix/range/from iterators and Seek on committed data). " +
			"concurrent cases: 2-6 goroutines run whole transactions on 4 keys (unique values, commit or rollback, reads by one prefix scan); the call/return history is checked with porcupine against a sequential map. every tenth concurrent case also runs under the race detector. " +
			"distinct_nontrivial = distinct (bucket count, depth, key count/4, reopen count) end shapes of sequential cases with ≥2 buckets and ≥3 keys + linearizable concurrent histories",
		Assumptions: []string{"creating a bucket that already exists may or may not return an error (only the resulting state is compared)", "iterators are checked on committed data only (read transactions, or write transactions before their first change)", "one database per process at a time (ldb keeps a package-global batch)"},
		Race:        true,
		UseRace: func(tier string, idx int) bool {
			p := plans[tier]
			return idx >= p.seq && (idx-p.seq)%10 == 0
		},
		Cases: func(tier string, seed int64) int { p := plans[tier]; return p.seq + p.conc },
		Run: func(t *core.T) {
			p := plans[t.Tier]
			if t.Index < p.seq {
				c11Sequential(t, p.seqSteps+t.R.Intn(p.seqSteps))
				return
			}
			c11Concurrent(t, t.R.Range(2, 6), t.R.Range(8, 30))
		},
	})
}
