package props

import (
	"fmt"
	"strings"

	"github.com/massnetorg/mass-core/consensus"
	"github.com/massnetorg/mass-core/massutil"
	"github.com/massnetorg/mass-core/txscript"
	"github.com/massnetorg/mass-core/wire"
	"massnet.org/mass-wallet/config"
	"massnet.org/mass-wallet/masswallet"

	"verifharness/core"
	"verifharness/sim"
)

// C10 — staking and binding deposits follow their lifecycle exactly.
// Monitor: ledger deposit list and boundary classification at EVERY height (lock-step), plus
// withdrawal probes: the wallet builds and signs a withdrawal of each unspent deposit; its input
// sequence must equal the relative lock consensus derives (calcSequenceLock / script engine), and
// the signed input must pass an independent script-engine run.

func decodeTxHex(s string) (*wire.MsgTx, error) {
	b, err := hexDecode(s)
	if err != nil {
		return nil, err
	}
	var tx wire.MsgTx
	if err := tx.SetBytes(b, wire.Packet); err != nil {
		return nil, err
	}
	return &tx, nil
}

// engineCheck runs mass-core's script engine on input idx with the flags consensus would use.
func engineCheck(tx *wire.MsgTx, idx int, prev *sim.Out) error {
	flags := txscript.StandardVerifyFlags
	if prev.Height >= consensus.MASSIP0002WarmUpHeight {
		flags |= txscript.ScriptMASSip2
	}
	vm, err := txscript.NewEngine(prev.PkScript, tx, idx, flags, nil, txscript.NewTxSigHashes(tx), prev.Value)
	if err != nil {
		return err
	}
	return vm.Execute()
}

func c10Probes(t *core.T, wd *sim.World, when string) {
	v, err := sim.ViewOfChain(wd.N.BestChain())
	if err != nil {
		t.Fatalf("view: %v", err)
	}
	fail := func(sig, msg string) {
		w := wd.Witness()
		w["when"] = when
		t.Violate(sig, when+": "+msg, w)
	}
	for _, k := range wd.Keys {
		if _, err := wd.W.W.UseWallet(k.ID); err != nil {
			continue
		}
		// (1) automatic selection never takes staking/binding coins, whatever their maturity
		var spendable int64
		locked := 0
		for _, o := range v.SortedOuts() {
			if o.Spent || !o.HasHash || !k.Owned[o.Hash] || o.Value == 0 {
				continue
			}
			if o.Class == sim.ClassStd && v.Mature(o) {
				spendable += o.Value
			}
			if o.Class != sim.ClassStd {
				locked++
			}
		}
		if locked > 0 {
			to := sim.StdAddr(wd.StrangerPub())
			for _, want := range []int64{spendable / 2, spendable + 1000} {
				if want < 100000 {
					continue
				}
				a, _ := massutil.NewAmountFromInt(want)
				t.Eval(1)
				hexTx, _, err := wd.W.W.AutoCreateRawTransaction(map[string]massutil.Amount{to: a}, 0, massutil.ZeroAmount(), "", "", nil)
				if err != nil {
					continue
				}
				tx, derr := decodeTxHex(hexTx)
				if derr != nil {
					fail("created-tx-undecodable", derr.Error())
					continue
				}
				for _, in := range tx.TxIn {
					if o := v.Outs[in.PreviousOutPoint]; o != nil && o.Class != sim.ClassStd {
						fail("locked-coin-auto-selected", fmt.Sprintf("AutoCreateRawTransaction(%d) selected %v which is a %s deposit", want, in.PreviousOutPoint, []string{"standard", "staking", "binding"}[o.Class]))
					}
				}
				if want > spendable {
					fail("locked-funds-counted-spendable", fmt.Sprintf("AutoCreateRawTransaction for %d succeeded although only %d is spendable (the rest is staking/binding)", want, spendable))
				}
				wd.W.W.ClearUsedUTXOMark(tx)
				t.Count("auto_selection_probes", 1)
			}
		}
		// (2) withdrawals the wallet builds carry the sequence consensus requires and verify
		probes := 0
		for _, o := range v.SortedOuts() {
			if probes >= 4 {
				break
			}
			if o.Spent || !o.HasHash || !k.Owned[o.Hash] || o.Class == sim.ClassStd || o.Value < 2000000 || len(k.Std) == 0 {
				continue
			}
			probes++
			t.Eval(1)
			dest := k.Std[0]
			amtv, _ := massutil.NewAmountFromInt(o.Value)
			lock := uint64(0)
			if t.R.Chance(30) {
				lock = uint64(t.R.Range(1, 50))
			}
			hexTx, _, err := wd.W.W.CreateRawTransaction([]*masswallet.TxIn{{TxId: o.OP.Hash.String(), Vout: o.OP.Index}},
				map[string]massutil.Amount{dest: amtv}, lock, "", map[string]struct{}{dest: {}})
			if err != nil {
				fail("withdrawal-not-buildable", fmt.Sprintf("CreateRawTransaction for deposit %v (class %d, height %d): %v", o.OP, o.Class, o.Height, err))
				continue
			}
			tx, derr := decodeTxHex(hexTx)
			if derr != nil || len(tx.TxIn) != 1 {
				fail("created-tx-undecodable", fmt.Sprint(derr))
				continue
			}
			wd.W.W.ClearUsedUTXOMark(tx)
			seq := tx.TxIn[0].Sequence
			need := o.Maturity()
			if o.Coinbase {
				need = 0
				if o.Class == sim.ClassStaking {
					need = o.Frozen + 1
				}
			}
			wantSeq := need
			if need == 0 {
				// no relative lock required: any sequence with the disable bit, or final
				if seq&wire.SequenceLockTimeDisabled == 0 && seq&wire.SequenceLockTimeMask != 0 {
					fail("withdrawal-sequence-wrong", fmt.Sprintf("withdrawal of %v needs no relative lock but carries sequence %#x", o.OP, seq))
				}
			} else if seq != wantSeq {
				fail("withdrawal-sequence-wrong", fmt.Sprintf("withdrawal of deposit %v (class %d, frozen %d, origin height %d) carries sequence %d; consensus requires the relative lock %d (includable exactly when the wallet reports it withdrawable)", o.OP, o.Class, o.Frozen, o.Height, seq, wantSeq))
			}
			// sign and verify independently
			signed, err := wd.W.W.SignRawTx([]byte(k.Pass), "ALL", tx)
			if err != nil {
				fail("withdrawal-not-signable", fmt.Sprintf("SignRawTx of the withdrawal of %v: %v", o.OP, err))
				continue
			}
			var stx wire.MsgTx
			if err := stx.SetBytes(signed, wire.Packet); err != nil {
				fail("created-tx-undecodable", err.Error())
				continue
			}
			if err := engineCheck(&stx, 0, o); err != nil {
				fail("withdrawal-fails-script-engine", fmt.Sprintf("signed withdrawal of %v does not pass the consensus script engine: %v", o.OP, err))
			}
			t.Count("withdrawal_probes", 1)
			t.Observe("withdrawal_classes", fmt.Sprintf("class%d-warm%v-confs%s", o.Class, o.Height >= consensus.MASSIP0002WarmUpHeight, boundaryTag(v, o)))
		}
	}
}

func boundaryTag(v *sim.View, o *sim.Out) string {
	c, m := v.Confs(o), o.Maturity()
	switch {
	case c+1 == m:
		return "one-below"
	case c == m:
		return "at-boundary"
	case c == m+1:
		return "one-above"
	case c < m:
		return "below"
	}
	return "above"
}

func c10Case(t *core.T, maxSteps int) {
	cfg := worldCfg{Maturity: uint64(t.R.Range(2, 4)), Wallets: t.R.Range(1, 2), Staking: true, BindingOld: t.R.Chance(60), BindingNew: t.R.Chance(40), Gap: 20}
	if cfg.BindingNew {
		cfg.Warm = uint64(t.R.Range(6, 14))
	}
	wd := newWorld(t, cfg)
	defer closeWorld(t, wd)
	for _, k := range wd.Keys {
		if len(k.Staking) == 0 {
			if _, err := wd.IssueAddress(k, 1); err != nil {
				t.Fatalf("staking address: %v", err)
			}
		}
	}
	wd.StrangerPub()
	steps := t.R.Range(maxSteps/2, maxSteps)
	opts := sim.CompareOpts{Histories: true, AddrBal: true}
	var shape []string
	boundaries := 0
	step := func(when string) bool {
		if !wd.Settle() {
			t.Inconclusive("handler not idle " + when)
			return false
		}
		t.Eval(1)
		d := wd.CheckLedger(opts)
		reportLedgerDiffs(t, wd, d, when)
		if len(d) > 0 {
			return false
		}
		// count boundary-sensitive deposits observed at this height
		v, _ := sim.ViewOfChain(wd.N.BestChain())
		owned := wd.AllOwned()
		for _, o := range v.SortedOuts() {
			if _, mine := owned[o.Hash]; mine && o.HasHash && !o.Spent && o.Class != sim.ClassStd {
				tag := boundaryTag(v, o)
				if tag == "one-below" || tag == "at-boundary" {
					boundaries++
					t.Observe("boundary_states", fmt.Sprintf("class%d-%s", o.Class, tag))
				}
			}
		}
		c10Probes(t, wd, when)
		return !t.Failed()
	}
	for s := 0; s < steps && !t.Failed(); s++ {
		switch t.R.Pick(60, 15, 15) {
		case 0:
			b, err := wd.Extend(t.R.Range(1, 3))
			if err != nil {
				t.Fatalf("extend: %v", err)
			}
			// pending versions: some deposits, withdrawals and payments are seen unconfirmed first
			for j, tx := range b.Msg.Transactions {
				if j > 0 && t.R.Chance(40) {
					wd.W.DeliverTx(tx)
					t.Count("transactions_seen_unconfirmed_first", 1)
				}
			}
			wd.W.Deliver(b)
			shape = append(shape, "e")
		case 1:
			height := int(wd.N.Height())
			if height < 3 {
				continue
			}
			depth := t.R.Range(1, 3)
			nb, _, err := wd.Fork(depth, depth+t.R.Range(0, 1), t.R.Range(0, 2))
			if err != nil {
				t.Fatalf("fork: %v", err)
			}
			if nb == nil {
				continue
			}
			wd.W.Deliver(nb)
			shape = append(shape, fmt.Sprintf("f%d", depth))
		case 2:
			// a deposit built by the wallet itself, mined in the next block
			if !wd.Settle() {
				return
			}
			k := wd.Keys[t.R.Intn(len(wd.Keys))]
			if _, err := wd.W.W.UseWallet(k.ID); err != nil {
				continue
			}
			var hexTx string
			var err error
			var h [32]byte
			for hh := range k.Staking {
				h = hh
			}
			val, _ := massutil.NewAmountFromInt(int64(t.R.Range(3000000, 90000000)))
			kind := "staking"
			frozen := uint32(wd.Opt.Frozen[t.R.Intn(len(wd.Opt.Frozen))])
			next := wd.N.Height() + 1
			if t.R.Bool() || (next < consensus.MASSIP0002WarmUpHeight && !cfg.BindingOld) || (next >= consensus.MASSIP0002WarmUpHeight && !cfg.BindingNew) {
				hexTx, _, err = wd.W.W.CreateStakingTransaction("", []*masswallet.StakingTxOut{{Address: sim.StakingAddr(h), FrozenPeriod: frozen, Amount: val}}, 0, massutil.ZeroAmount())
			} else {
				kind = "binding"
				holder, _ := massutil.NewAddressWitnessScriptHash(k.Hashes[0][:], config.ChainParams)
				var target massutil.Address
				if next >= consensus.MASSIP0002WarmUpHeight {
					tb := t.R.Bytes(22)
					tb[20], tb[21] = byte(t.R.Intn(2)), byte(t.R.Range(24, 40))
					target, _ = massutil.NewAddressBindingTarget(tb, config.ChainParams)
				} else {
					target, _ = massutil.NewAddressPubKeyHash(t.R.Bytes(20), config.ChainParams)
				}
				hexTx, _, err = wd.W.W.CreateBindingTransaction("", massutil.ZeroAmount(), []*masswallet.BindingOutput{{Holder: holder, BindingTarget: target, Amount: val}})
			}
			if err != nil {
				wd.Logf("wallet-built %s deposit refused: %v", kind, err)
				continue
			}
			tx, derr := decodeTxHex(hexTx)
			if derr != nil {
				t.Violate("created-tx-undecodable", derr.Error(), wd.Witness())
				return
			}
			wd.Logf("wallet builds a %s deposit %s (frozen %d)", kind, tx.TxHash().String()[:10], frozen)
			b, err := wd.BuildBlock(wd.N.Tip(), []*wire.MsgTx{tx}, 0)
			if err != nil {
				t.Fatalf("build: %v", err)
			}
			if len(b.Msg.Transactions) < 2 {
				t.Violate("wallet-built-deposit-invalid", "the deposit transaction built by the wallet spends outputs that are not unspent on the best chain", wd.Witness())
				return
			}
			if err := wd.N.Extend(b); err != nil {
				t.Fatalf("extend: %v", err)
			}
			wd.Logf("extend %s", wd.BlockDesc(b))
			wd.W.Deliver(b)
			t.Count("wallet_built_deposits_mined", 1)
			shape = append(shape, "D")
		}
		if !step(fmt.Sprintf("after step %d (height %d)", s, wd.N.Height())) {
			break
		}
	}
	t.Count("boundary_observations", boundaries)
	if boundaries > 0 {
		t.Nontrivial(strings.Join(shape, "") + fmt.Sprintf("|b%d|%s", boundaries, strings.Join(wd.Disp, ",")))
	}
	ops := wd.Ops
	if len(ops) > 30 {
		ops = ops[:30]
	}
	t.Sample(map[string]interface{}{"config": cfg, "shape": strings.Join(shape, " "), "first_ops": ops})
}

func init() {
	plans := map[string]struct{ cases, steps int }{
		"quick":    {cases: 200, steps: 36},
		"thorough": {cases: 4000, steps: 70},
	}
	core.Register(&core.Property{
		ID:    "C10",
		Level: "exploration",
		Rule: "case = seeded lock-step history with staking deposits (frozen periods 2,4,9 so that origin+frozen boundaries are crossed block by block), old-style binding before and new-style binding after a per-case MASSIP0002 warm-up height, withdrawals, deposits built by the wallet itself (CreateStakingTransaction / CreateBindingTransaction, mined next block) and reorgs (depth 1-3) across deposit and withdrawal blocks. " +
			"At EVERY height: ledger equality incl. mined deposit histories with withdrawn flags and the withdrawable figures; automatic selection probes (never a staking/binding coin, locked funds never fund a payment); withdrawal probes (CreateRawTransaction on the deposit → input sequence must equal the consensus relative lock; SignRawTx → independent script-engine run with consensus flags). " +
			"distinct_nontrivial = distinct op shapes of cases that observed ≥1 deposit exactly one block below or at its maturity boundary",
		Assumptions: []string{"consensus.MinFrozenPeriod lowered to 2 and MASSIP0002WarmUpHeight lowered per case (package variables); mass-core script engine is the reference for the sequence check", "coinbase outputs are standard scripts only"},
		Cases:       func(tier string, seed int64) int { return plans[tier].cases },
		Run:         func(t *core.T) { c10Case(t, plans[t.Tier].steps) },
	})
}
