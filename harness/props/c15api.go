package props

import (
	"context"
	"fmt"

	"github.com/massnetorg/mass-core/consensus"
	"github.com/massnetorg/mass-core/wire"
	pb "massnet.org/mass-wallet/api/proto"

	"verifharness/core"
	"verifharness/sim"
)

// c15ApiCase: the amount strings the API hands out (coin list, wallet balance, address balances) for a
// wallet holding very large coins with non-round low digits - amounts of 2^26 MASS and more, where a
// float64 no longer resolves single units - must be the exact decimal of the ledger's amounts.
func c15ApiCase(t *core.T) {
	wd := newWorld(t, worldCfg{Maturity: 2, Wallets: 1, Gap: 20})
	defer closeWorld(t, wd)
	k := wd.Keys[0]
	max := int64(consensus.MaxMass * consensus.MaxwellPerMass)
	umax := uint64(max)
	big1 := int64(1)<<26*100000000 + int64(t.R.Range(1, 99999999))
	big2 := int64(t.R.Range(70000000, 120000000))*100000000 + int64(t.R.Range(1, 99999999))
	small := int64(t.R.Range(1, 5000000))
	rest := max - big1 - big2 - small
	mid := int64(1)
	if rest > 2 {
		mid = 1 + int64(t.R.Uint64()%uint64(rest-1))
	}
	amounts := []int64{big1, small, big2, mid}
	want := map[wire.OutPoint]int64{}
	for i, a := range amounts {
		h := k.Hashes[i%len(k.Hashes)]
		cb := sim.Coinbase(wd.N.Height()+1, t.R.Uint64(), []*wire.TxOut{wire.NewTxOut(1, sim.P2WSH(wd.StrangerPub())), wire.NewTxOut(a, sim.P2WSH(h))})
		b := wd.N.NewBlock(wd.N.Tip(), []*wire.MsgTx{cb})
		if err := wd.N.Extend(b); err != nil {
			t.Fatalf("extend: %v", err)
		}
		wd.W.Deliver(b)
		want[wire.OutPoint{Hash: cb.TxHash(), Index: 1}] = a
	}
	if !wd.Settle() {
		t.Inconclusive("handler not idle")
		return
	}
	if _, err := wd.W.W.UseWallet(k.ID); err != nil {
		t.Fatalf("use wallet: %v", err)
	}
	fail := func(sig, msg string) {
		w := wd.Witness()
		w["amounts"] = amounts
		t.Violate(sig, msg, w)
	}
	exact := func(where, s string, v int64) {
		t.Eval(1)
		cls, val := c15Classify(s, umax)
		if cls == clsReject || val != uint64(v) {
			fail("api-amount-string-not-exact", fmt.Sprintf("%s: the API reports %q for an amount of %d units (exact decimal %s)", where, s, v, refFormat(v)))
		}
	}
	ctx := context.Background()
	resp, err := wd.W.API.GetUtxo(ctx, &pb.GetUtxoRequest{})
	if err != nil {
		fail("api-call-failed", "GetUtxo: "+err.Error())
		return
	}
	seen := 0
	for _, au := range resp.AddressUtxos {
		for _, u := range au.Utxos {
			h, herr := wire.NewHashFromStr(u.TxId)
			if herr != nil {
				continue
			}
			if v, ok := want[wire.OutPoint{Hash: *h, Index: u.Vout}]; ok {
				seen++
				exact("GetUtxo "+u.TxId[:10], u.Amount, v)
			}
		}
	}
	if seen != len(want) {
		fail("api-coin-missing", fmt.Sprintf("GetUtxo lists %d of the %d coins paid to the wallet", seen, len(want)))
	}
	var total int64
	perAddr := map[string]int64{}
	for i, a := range amounts {
		total += a
		perAddr[sim.StdAddr(k.Hashes[i%len(k.Hashes)])] += a
	}
	if wb, err := wd.W.API.GetWalletBalance(ctx, &pb.GetWalletBalanceRequest{RequiredConfirmations: 0, Detail: true}); err != nil {
		fail("api-call-failed", "GetWalletBalance: "+err.Error())
	} else {
		exact("GetWalletBalance total", wb.Total, total)
	}
	if ab, err := wd.W.API.GetAddressBalance(ctx, &pb.GetAddressBalanceRequest{RequiredConfirmations: 0}); err != nil {
		fail("api-call-failed", "GetAddressBalance: "+err.Error())
	} else {
		for _, b := range ab.Balances {
			if v, ok := perAddr[b.Address]; ok {
				exact("GetAddressBalance "+b.Address[:12], b.Total, v)
			}
		}
	}
	t.Count("api_amount_strings_compared", seen+1+len(perAddr))
	t.Nontrivial(fmt.Sprintf("api|%d|%d", big1%1000, big2%1000))
	t.Sample(map[string]interface{}{"kind": "api-amount-strings", "amounts": amounts})
}
