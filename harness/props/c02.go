package props

import (
	"bytes"
	"context"
	"fmt"
	"sort"
	"strings"
	"time"

	"github.com/massnetorg/mass-core/blockchain"
	"github.com/massnetorg/mass-core/massutil"
	"github.com/massnetorg/mass-core/wire"
	pb "massnet.org/mass-wallet/api/proto"
	"massnet.org/mass-wallet/config"
	"massnet.org/mass-wallet/masswallet"

	"verifharness/core"
	"verifharness/sim"
)

// C02 — created transactions conserve value and spend only own, mature, free coins.
// Monitor: conservation / ownership / eligibility / fee-bounds checker on every returned
// transaction + must-succeed / must-fail funding regions (DESIGN.md §5 C02).

type c02Req struct {
	Kind     string // auto, manual, staking, binding, api-auto
	Amounts  map[string]int64
	Fee      int64
	LockTime uint64
	From     string
	Change   string
	Payload  []byte
	SubFee   []string
	Inputs   []wire.OutPoint
	Scripts  map[string][]byte // requested output scripts for staking/binding kinds (key = label)
	Frozen   uint32
	Target   []byte
	// Respell: explicit inputs listed twice are written differently the second time (upper-case hex):
	// the same output under another spelling of its transaction id
	Respell bool
}

func (r *c02Req) String() string {
	var a []string
	for k, v := range r.Amounts {
		a = append(a, fmt.Sprintf("%s…=%d", k[:12], v))
	}
	sort.Strings(a)
	return fmt.Sprintf("%s amounts{%s} fee=%d lock=%d from=%.12s change=%.12s payload=%dB subfee=%d inputs=%d", r.Kind, strings.Join(a, ","), r.Fee, r.LockTime, r.From, r.Change, len(r.Payload), len(r.SubFee), len(r.Inputs)) + map[bool]string{true: " (duplicate input respelled)", false: ""}[r.Respell]
}

type c02State struct {
	wd       *sim.World
	k        *sim.WalletKeys
	reserved map[wire.OutPoint]bool
	apiSrv   bool
	hung     bool  // a creating call never returned: the wallet's locks are held, the case ends
	maxWork  int64 // storage calls of the most expensive creation so far
}

// c02WorkBound: storage calls after which a creating call that is still running is judged to loop
const c02WorkBound = 300000

const (
	c02RelayPerKB = 10000
	c02MaxStdSize = 100000
)

func c02Relay(size int64) int64 { return size * c02RelayPerKB / 1000 }

// eligible coins for automatic selection
func (s *c02State) eligible(v *sim.View, from string) []*sim.Out {
	var fromHash *[32]byte
	if from != "" {
		if h, err := sim.HashOfAddress(from); err == nil {
			fromHash = &h
		}
	}
	var e []*sim.Out
	for _, o := range v.SortedOuts() {
		if o.Spent || !o.HasHash || !s.k.Owned[o.Hash] || o.Class != sim.ClassStd || o.Value <= 0 || !v.Mature(o) || s.reserved[o.OP] {
			continue
		}
		if fromHash != nil && o.Hash != *fromHash {
			continue
		}
		e = append(e, o)
	}
	sort.Slice(e, func(i, j int) bool { return e[i].Value > e[j].Value })
	return e
}

func (s *c02State) call(t *core.T, r *c02Req) (string, int64, error) {
	w := s.wd.W.W
	amts := map[string]massutil.Amount{}
	for a, v := range r.Amounts {
		x, err := massutil.NewAmountFromInt(v)
		if err != nil {
			t.Fatalf("amount: %v", err)
		}
		amts[a] = x
	}
	fee, _ := massutil.NewAmountFromInt(r.Fee)
	switch r.Kind {
	case "auto":
		h, f, err := w.AutoCreateRawTransaction(amts, r.LockTime, fee, r.From, r.Change, r.Payload)
		return h, f.IntValue(), err
	case "manual":
		var ins []*masswallet.TxIn
		seenOp := map[wire.OutPoint]bool{}
		for _, op := range r.Inputs {
			id := op.Hash.String()
			if r.Respell && seenOp[op] {
				id = strings.ToUpper(id)
			}
			seenOp[op] = true
			ins = append(ins, &masswallet.TxIn{TxId: id, Vout: op.Index})
		}
		sub := map[string]struct{}{}
		for _, a := range r.SubFee {
			sub[a] = struct{}{}
		}
		h, f, err := w.CreateRawTransaction(ins, amts, r.LockTime, r.Change, sub)
		return h, f.IntValue(), err
	case "staking":
		var outs []*masswallet.StakingTxOut
		for a, v := range amts {
			outs = append(outs, &masswallet.StakingTxOut{Address: a, FrozenPeriod: r.Frozen, Amount: v})
		}
		h, f, err := w.CreateStakingTransaction(r.From, outs, r.LockTime, fee)
		return h, f.IntValue(), err
	case "binding":
		var outs []*masswallet.BindingOutput
		for a, v := range amts {
			holder, _ := massutil.DecodeAddress(a, config.ChainParams)
			var target massutil.Address
			if len(r.Target) == 20 {
				target, _ = massutil.NewAddressPubKeyHash(r.Target, config.ChainParams)
			} else {
				target, _ = massutil.NewAddressBindingTarget(r.Target, config.ChainParams)
			}
			outs = append(outs, &masswallet.BindingOutput{Holder: holder, BindingTarget: target, Amount: v})
		}
		h, f, err := w.CreateBindingTransaction(r.From, fee, outs)
		return h, f.IntValue(), err
	case "api-auto":
		am := map[string]string{}
		for a, v := range r.Amounts {
			am[a] = refFormat(v)
		}
		resp, err := s.wd.W.API.AutoCreateTransaction(context.Background(), &pb.AutoCreateTransactionRequest{Amounts: am, LockTime: r.LockTime, Fee: refFormat(r.Fee), FromAddress: r.From, ChangeAddress: r.Change})
		if err != nil {
			return "", 0, err
		}
		return resp.Hex, -1, nil
	}
	t.Fatalf("unknown kind %s", r.Kind)
	return "", 0, nil
}

func c02Check(t *core.T, s *c02State, r *c02Req) {
	wd, k := s.wd, s.k
	v, err := sim.ViewOfChain(wd.N.BestChain())
	if err != nil {
		t.Fatalf("view: %v", err)
	}
	auto := r.Kind != "manual"
	E := s.eligible(v, r.From)
	var sumE, sumTopK int64
	K := c02MaxStdSize / 154
	for i, o := range E {
		sumE += o.Value
		if i < K {
			sumTopK += o.Value
		}
	}
	var outTotal int64
	for _, a := range r.Amounts {
		outTotal += a
	}
	t.Eval(1)
	fail := func(sig, msg string) {
		w := wd.Witness()
		w["request"] = r.String()
		t.Violate(sig, msg, w)
	}
	// the creating call runs under a work bound: a call that is still running after the watchdog AND
	// after c02WorkBound storage calls (a creation over 600 coins needs a few thousand) does not
	// create anything, it loops - with the wallet's read lock held
	type c02Ret struct {
		hexTx string
		fee   int64
		err   error
	}
	work := func() int64 { return wd.W.DB.Seq() + wd.N.Wrap.TotalCalls() }
	w0 := work()
	retc := make(chan c02Ret, 1)
	go func() {
		h, f, e := s.call(t, r)
		retc <- c02Ret{h, f, e}
	}()
	var ret c02Ret
	select {
	case ret = <-retc:
	case <-time.After(15 * time.Second):
		done := work() - w0
		t.Recycle()
		s.hung = true
		if done > c02WorkBound {
			fail("creation-never-returns", fmt.Sprintf("the creating call has not returned after %d storage calls (bound %d) and is still running", done, c02WorkBound))
		} else {
			t.Inconclusive(fmt.Sprintf("creating call did not return within 15 s (%d storage calls, below the work bound: not judged)", done))
		}
		return
	}
	if d := work() - w0; d > s.maxWork {
		s.maxWork = d
		t.Max("storage_calls_of_one_creation", int(d))
	}
	hexTx, fee, cerr := ret.hexTx, ret.fee, ret.err
	wd.Logf("%s -> err=%v fee=%d (eligible coins %d sum %d)", r.String(), cerr, fee, len(E), sumE)
	if auto {
		fHi := r.Fee
		if fHi < c02Relay(c02MaxStdSize) {
			fHi = c02Relay(c02MaxStdSize)
		}
		fHi += c02RelayPerKB
		maxFeeAPI := int64(100000000) // max_tx_fee default 1.0 MASS
		if cerr != nil {
			if sumTopK >= outTotal+fHi && !(r.Kind == "api-auto" && r.Fee > maxFeeAPI) {
				fail("creation-fails-with-sufficient-funds", fmt.Sprintf("request failed with %q although the %d largest eligible coins hold %d ≥ outputs %d + fee bound %d", cerr, minInt(K, len(E)), sumTopK, outTotal, fHi))
			}
			minFee := r.Fee
			if minFee < 2000 {
				minFee = 2000
			}
			if sumE < outTotal+minFee {
				t.Count("must_fail_region_hits", 1)
				if r.Kind != "api-auto" && cerr != masswallet.ErrInsufficientFunds && !(len(E) >= K && cerr == masswallet.ErrOverfullUtxo) {
					fail("insufficient-funds-wrong-error", fmt.Sprintf("eligible funds %d < outputs %d + fee, but the error is %q instead of the insufficient-funds error", sumE, outTotal, cerr))
				}
			}
			return
		}
		minFee := r.Fee
		if minFee < 2000 {
			minFee = 2000
		}
		if sumE < outTotal+minFee {
			fail("creation-succeeds-without-funds", fmt.Sprintf("request succeeded although all eligible coins together hold %d < outputs %d + minimum fee %d", sumE, outTotal, minFee))
		}
		if sumTopK >= outTotal+fHi {
			t.Count("must_succeed_region_hits", 1)
		}
	} else if cerr != nil {
		return
	}
	tx, derr := decodeTxHex(hexTx)
	if derr != nil {
		fail("created-tx-undecodable", derr.Error())
		return
	}
	// (a)/(b) inputs
	var fromHash *[32]byte
	if r.From != "" {
		if h, e := sim.HashOfAddress(r.From); e == nil {
			fromHash = &h
		}
	}
	seen := map[wire.OutPoint]bool{}
	var sumIn int64
	var ins []*sim.Out
	for i, in := range tx.TxIn {
		op := in.PreviousOutPoint
		if seen[op] {
			fail("input-spent-twice", fmt.Sprintf("input %d spends %v a second time", i, op))
		}
		seen[op] = true
		o := v.Outs[op]
		if o == nil || o.Spent || !o.HasHash || !k.Owned[o.Hash] {
			fail("input-not-own-unspent", fmt.Sprintf("input %d spends %v which is not an unspent output of the selected wallet on the best chain", i, op))
			return
		}
		if fromHash != nil && o.Hash != *fromHash {
			fail("input-not-from-sender-address", fmt.Sprintf("input %d spends %v which does not belong to the requested sender address", i, op))
		}
		if auto {
			if o.Class != sim.ClassStd {
				fail("locked-coin-auto-selected", fmt.Sprintf("input %d is a %s coin", i, []string{"standard", "staking", "binding"}[o.Class]))
			}
			if !v.Mature(o) {
				fail("immature-coin-selected", fmt.Sprintf("input %d spends %v with %d confirmations, maturity %d", i, op, v.Confs(o), o.Maturity()))
			}
			if s.reserved[op] {
				fail("reserved-coin-reused", fmt.Sprintf("input %d spends %v which an earlier outstanding draft already uses", i, op))
			}
		}
		sumIn += o.Value
		ins = append(ins, o)
		// sequence
		wantSeq := uint64(wire.MaxTxInSequenceNum)
		if r.LockTime != 0 {
			wantSeq = wire.MaxTxInSequenceNum - 1
		}
		if o.Class == sim.ClassStaking {
			wantSeq = o.Frozen + 1
		}
		if o.Class == sim.ClassBinding && o.Maturity() != 0 {
			wantSeq = o.Maturity()
		}
		if in.Sequence != wantSeq {
			fail("input-sequence-wrong", fmt.Sprintf("input %d sequence %d want %d", i, in.Sequence, wantSeq))
		}
	}
	if len(tx.TxIn) == 0 {
		fail("no-inputs", "transaction without inputs")
		return
	}
	// (c) outputs
	type wantOut struct {
		script []byte
		value  int64
		label  string
		sub    bool
	}
	var wants []wantOut
	subSet := map[string]bool{}
	for _, a := range r.SubFee {
		subSet[a] = true
	}
	for a, val := range r.Amounts {
		h, e := sim.HashOfAddress(a)
		if e != nil {
			continue
		}
		var script []byte
		switch r.Kind {
		case "staking":
			script = sim.StakingScript(h, uint64(r.Frozen))
		case "binding":
			script = sim.BindingScript(h, r.Target)
		default:
			script = sim.P2WSH(h)
		}
		wants = append(wants, wantOut{script, val, a, subSet[a]})
	}
	used := make([]bool, len(tx.TxOut))
	var sumOut int64
	for _, o := range tx.TxOut {
		sumOut += o.Value
	}
	eachSub := int64(-1)
	for _, wnt := range wants {
		found := false
		for i, o := range tx.TxOut {
			if used[i] || !bytes.Equal(o.PkScript, wnt.script) {
				continue
			}
			if wnt.sub {
				d := wnt.value - o.Value
				if d < 0 {
					continue
				}
				if eachSub >= 0 && d != eachSub {
					continue
				}
				eachSub = d
			} else if o.Value != wnt.value {
				continue
			}
			used[i] = true
			found = true
			break
		}
		if !found {
			fail("requested-output-missing", fmt.Sprintf("no output pays %d to %s (as requested%s)", wnt.value, wnt.label, map[bool]string{true: ", minus an equal fee share", false: ""}[wnt.sub]))
		}
	}
	extra := 0
	for i, o := range tx.TxOut {
		if used[i] {
			continue
		}
		extra++
		changeTo := r.Change
		if changeTo == "" {
			changeTo = sim.StdAddr(ins[0].Hash)
		}
		ch, _ := sim.HashOfAddress(changeTo)
		if !bytes.Equal(o.PkScript, sim.P2WSH(ch)) {
			fail("change-to-wrong-address", fmt.Sprintf("extra output %d (%d) does not pay the change address %s", i, o.Value, changeTo))
		}
	}
	if extra > 1 {
		fail("more-than-one-change-output", fmt.Sprintf("%d outputs beyond the requested ones", extra))
	}
	// (d) fee
	actualFee := sumIn - sumOut
	if actualFee < 0 {
		fail("outputs-exceed-inputs", fmt.Sprintf("inputs %d < outputs %d", sumIn, sumOut))
		return
	}
	if fee >= 0 && fee != actualFee {
		fail("reported-fee-differs", fmt.Sprintf("reported fee %d but inputs − outputs = %d", fee, actualFee))
	}
	// fee borne by the recipients: each of the n named recipients is reduced by the same share and
	// the shares together are the fee (exactly when there is a change output; a remainder too small
	// for a change output may be added to the fee)
	if nSub := int64(len(subSet)); nSub > 0 && eachSub >= 0 {
		t.Count("fee_subtraction_checked", 1)
		if extra == 1 && eachSub*nSub != actualFee {
			fail("fee-share-mismatch", fmt.Sprintf("%d recipient(s) were each reduced by %d but the fee (inputs − outputs) is %d", nSub, eachSub, actualFee))
		}
		if extra == 0 && eachSub*nSub > actualFee {
			fail("fee-share-mismatch", fmt.Sprintf("%d recipient(s) were each reduced by %d, more than the fee %d", nSub, eachSub, actualFee))
		}
	}
	if auto && actualFee < r.Fee {
		fail("fee-below-user-fee", fmt.Sprintf("fee %d below the user's fee %d", actualFee, r.Fee))
	}
	bound := int64(c02Relay(c02MaxStdSize)) + int64(len(r.SubFee))
	if r.Fee > bound {
		bound = r.Fee
	}
	if actualFee > bound {
		fail("fee-above-bound", fmt.Sprintf("fee %d exceeds max(user fee %d, relay minimum of a standard-size transaction %d)", actualFee, r.Fee, c02Relay(c02MaxStdSize)))
	}
	if r.Kind == "api-auto" && actualFee > 100000000 {
		fail("api-fee-above-max-tx-fee", fmt.Sprintf("API returned a transaction with fee %d above max_tx_fee", actualFee))
	}
	if tx.LockTime != r.LockTime {
		fail("locktime-differs", fmt.Sprintf("lock time %d want %d", tx.LockTime, r.LockTime))
	}
	if r.Kind == "auto" && !bytes.Equal(tx.Payload, r.Payload) {
		fail("payload-differs", "payload differs from the request")
	}
	// relay minimum for the signed size
	cp := *tx
	cp.TxIn = nil
	for _, in := range tx.TxIn {
		c := *in
		cp.TxIn = append(cp.TxIn, &c)
	}
	if signed, serr := wd.W.W.SignRawTx([]byte(k.Pass), "ALL", &cp); serr == nil {
		var stx wire.MsgTx
		if stx.SetBytes(signed, wire.Packet) == nil {
			size := int64(stx.PlainSize())
			req, _ := blockchain.CalcMinRequiredTxRelayFee(size, massutil.MinRelayTxFee())
			if actualFee < req.IntValue() {
				fail("fee-below-relay-minimum", fmt.Sprintf("fee %d below the relay minimum %d of the signed size %d", actualFee, req.IntValue(), size))
			}
			t.Count("signed_and_sized", 1)
		}
	} else {
		fail("created-tx-not-signable", fmt.Sprintf("SignRawTx of the created transaction: %v", serr))
	}
	for _, in := range tx.TxIn {
		s.reserved[in.PreviousOutPoint] = true
	}
	if len(tx.TxIn) >= 2 {
		t.Nontrivial(fmt.Sprintf("%s:in%d:out%d:coins%d:extra%d", r.Kind, bucket(len(tx.TxIn)), len(tx.TxOut), bucket(len(E)), extra))
	}
	t.Count("created_"+r.Kind, 1)
}

func bucket(n int) int {
	switch {
	case n <= 4:
		return n
	case n <= 10:
		return 10
	case n <= 50:
		return 50
	case n <= 200:
		return 200
	}
	return 1000
}

func c02Request(t *core.T, s *c02State, v *sim.View) *c02Req {
	wd, k := s.wd, s.k
	r := &c02Req{Amounts: map[string]int64{}}
	E := s.eligible(v, "")
	var sumE int64
	for _, o := range E {
		sumE += o.Value
	}
	dest := func() string {
		if t.R.Chance(25) && len(k.Std) > 0 {
			return k.Std[t.R.Intn(len(k.Std))] // self-payment
		}
		return sim.StdAddr(wd.StrangerPub())
	}
	amountNear := func() int64 {
		switch t.R.Intn(6) {
		case 0:
			return int64(t.R.Range(10000, 200000))
		case 1: // just about everything
			return sumE - int64(t.R.Range(0, 1200000))
		case 2: // more than there is
			return sumE + int64(t.R.Range(1, 500000))
		case 3:
			if len(E) > 0 {
				return E[t.R.Intn(len(E))].Value // exactly one coin
			}
		}
		if sumE > 20000 {
			return int64(t.R.Uint64()%uint64(sumE)) + 10000
		}
		return 15000
	}
	switch t.R.Pick(45, 20, 10, 8, 17) {
	case 0:
		r.Kind = "auto"
	case 1:
		r.Kind = "manual"
	case 2:
		r.Kind = "staking"
	case 3:
		r.Kind = "binding"
	case 4:
		r.Kind = "api-auto"
	}
	switch t.R.Intn(5) {
	case 0:
		r.Fee = 0
	case 1:
		r.Fee = int64(t.R.Range(1, 3000))
	case 2:
		r.Fee = int64(t.R.Range(10000, 2000000))
	case 3:
		r.Fee = int64(t.R.Range(2000000, 150000000))
	}
	if t.R.Chance(30) {
		r.LockTime = uint64(t.R.Range(1, 100000))
	}
	switch r.Kind {
	case "auto", "api-auto":
		n := t.R.Range(1, 5)
		total := amountNear()
		if total < 1 {
			total = 10000
		}
		for i := 0; i < n; i++ {
			a := dest()
			val := total / int64(n)
			if val < 1 {
				val = 1
			}
			r.Amounts[a] += val
		}
		if t.R.Chance(30) && len(k.Std) > 0 {
			r.From = k.Std[t.R.Intn(len(k.Std))]
		}
		if t.R.Chance(30) && len(k.Std) > 0 {
			r.Change = k.Std[t.R.Intn(len(k.Std))]
		}
		if r.Kind == "auto" && t.R.Chance(30) {
			r.Payload = t.R.Bytes(t.R.Range(1, 200))
		}
	case "staking":
		var h [32]byte
		for hh := range k.Staking {
			h = hh
		}
		val := amountNear()
		if val < 1 {
			val = 10000
		}
		r.Amounts[sim.StakingAddr(h)] = val
		r.Frozen = uint32(wd.Opt.Frozen[t.R.Intn(len(wd.Opt.Frozen))])
		if t.R.Chance(30) && len(k.Std) > 0 {
			r.From = k.Std[t.R.Intn(len(k.Std))]
		}
	case "binding":
		val := amountNear()
		if val < 1 {
			val = 10000
		}
		r.Amounts[k.Std[t.R.Intn(len(k.Std))]] = val
		r.Target = t.R.Bytes(20)
		r.LockTime = 0
		if t.R.Chance(40) && len(k.Std) > 0 {
			r.From = k.Std[t.R.Intn(len(k.Std))] // binding drafts take a sender address too
		}
	case "manual":
		// explicit inputs: mostly own coins (any class, any maturity), sometimes foreign / spent ones
		var own []*sim.Out
		for _, o := range v.SortedOuts() {
			if !o.Spent && o.HasHash && k.Owned[o.Hash] && o.Value > 0 {
				own = append(own, o)
			}
		}
		sort.Slice(own, func(i, j int) bool {
			if own[i].OP.Hash != own[j].OP.Hash {
				return own[i].OP.Hash.String() < own[j].OP.Hash.String()
			}
			return own[i].OP.Index < own[j].OP.Index
		})
		if len(own) == 0 {
			r.Kind = "auto"
			r.Amounts[dest()] = 10000
			return r
		}
		n := t.R.Range(1, minInt(4, len(own)))
		var total int64
		for i := 0; i < n; i++ {
			o := own[t.R.Intn(len(own))]
			dup := false
			for _, op := range r.Inputs {
				if op == o.OP {
					dup = true
				}
			}
			if dup && !t.R.Chance(20) {
				continue
			}
			if dup {
				r.Respell = t.R.Bool()
			}
			r.Inputs = append(r.Inputs, o.OP)
			total += o.Value
		}
		if t.R.Chance(10) {
			// an input that is not ours
			for _, o := range v.SortedOuts() {
				if !o.Spent && o.HasHash && !k.Owned[o.Hash] {
					r.Inputs = append(r.Inputs, o.OP)
					break
				}
			}
		}
		nOut := t.R.Range(1, 3)
		budget := total * int64(t.R.Range(30, 105)) / 100
		for i := 0; i < nOut; i++ {
			val := budget / int64(nOut)
			if val < 1 {
				val = 1
			}
			r.Amounts[dest()] += val
		}
		if t.R.Chance(40) {
			for a := range r.Amounts {
				if t.R.Bool() {
					r.SubFee = append(r.SubFee, a)
				}
			}
		}
		if t.R.Chance(40) && len(k.Std) > 0 {
			r.Change = k.Std[t.R.Intn(len(k.Std))]
		}
		r.Fee = 0
	}
	return r
}

// c02BuildCoins creates the UTXO set of the case.
func c02BuildCoins(t *core.T, wd *sim.World, k *sim.WalletKeys, shape string) {
	ext := func(txs []*wire.MsgTx) {
		b := wd.N.NewBlock(wd.N.Tip(), txs)
		if err := wd.N.Extend(b); err != nil {
			t.Fatalf("extend: %v", err)
		}
		wd.W.Deliver(b)
	}
	str := wd.StrangerPub()
	cbS := func(val int64) *wire.MsgTx {
		return sim.Coinbase(wd.N.Height()+1, t.R.Uint64(), []*wire.TxOut{wire.NewTxOut(val, sim.P2WSH(str))})
	}
	// stranger funds
	for i := 0; i < 4; i++ {
		ext([]*wire.MsgTx{cbS(2000000000000)})
	}
	v, _ := sim.ViewOfChain(wd.N.BestChain())
	var funds []*sim.Out
	for _, o := range v.SortedOuts() {
		if o.Hash == str && !o.Spent && v.Mature(o) {
			funds = append(funds, o)
		}
	}
	if len(funds) == 0 {
		t.Fatalf("no stranger funds")
	}
	pick := func() [32]byte { return k.Hashes[t.R.Intn(len(k.Hashes))] }
	var vals []int64
	switch shape {
	case "few":
		for i := 0; i < t.R.Range(1, 8); i++ {
			vals = append(vals, int64(t.R.Range(50000, 900000000)))
		}
	case "many-small":
		n := t.R.Range(100, 700)
		for i := 0; i < n; i++ {
			vals = append(vals, int64(t.R.Range(12000, 90000)))
		}
	case "large-plus-dust":
		vals = append(vals, int64(t.R.Range(5, 40))*100000000)
		for i := 0; i < t.R.Range(5, 60); i++ {
			vals = append(vals, int64(t.R.Range(600, 30000)))
		}
	default:
		for i := 0; i < t.R.Range(5, 60); i++ {
			vals = append(vals, int64(t.R.Uint64()%uint64(pow10(t.R.Range(3, 10))))+500)
		}
	}
	src := funds[0]
	var outs []*wire.TxOut
	var total int64
	for i, val := range vals {
		script := sim.P2WSH(pick())
		if wd.Opt.Staking && i%9 == 4 {
			script = sim.StakingScript(pick(), wd.Opt.Frozen[t.R.Intn(len(wd.Opt.Frozen))])
		}
		if wd.Opt.BindingOld && i%11 == 5 {
			script = sim.BindingScript(pick(), t.R.Bytes(20))
		}
		outs = append(outs, wire.NewTxOut(val, script))
		total += val
	}
	outs = append(outs, wire.NewTxOut(src.Value-total-100000, sim.P2WSH(str)))
	fan := sim.Spend([]wire.OutPoint{src.OP}, nil, outs, t.R.Uint64()|1)
	ext([]*wire.MsgTx{cbS(1000), fan})
	// immature coinbases to the wallet
	for i := 0; i < t.R.Range(0, 2); i++ {
		cb := sim.Coinbase(wd.N.Height()+1, t.R.Uint64(), []*wire.TxOut{wire.NewTxOut(int64(t.R.Range(1, 9))*100000000, sim.P2WSH(pick()))})
		ext([]*wire.MsgTx{cb})
	}
}

func c02Case(t *core.T, reqs int) {
	cfg := worldCfg{Maturity: uint64(t.R.Range(2, 4)), Wallets: t.R.Range(1, 2), Staking: t.R.Chance(50), BindingOld: t.R.Chance(40), Gap: 20}
	wd := newWorld(t, cfg)
	defer closeWorld(t, wd)
	k := wd.Keys[0]
	if len(k.Staking) == 0 {
		if _, err := wd.IssueAddress(k, 1); err != nil {
			t.Fatalf("staking address: %v", err)
		}
	}
	shape := []string{"few", "many-small", "large-plus-dust", "mixed", "mixed", "few"}[t.R.Intn(6)]
	c02BuildCoins(t, wd, k, shape)
	if !wd.Settle() {
		t.Inconclusive("handler not idle")
		return
	}
	if d := wd.CheckLedger(sim.CompareOpts{}); len(d) > 0 {
		reportLedgerDiffs(t, wd, d, "before the requests")
		return
	}
	if _, err := wd.W.W.UseWallet(k.ID); err != nil {
		t.Fatalf("use wallet: %v", err)
	}
	s := &c02State{wd: wd, k: k, reserved: map[wire.OutPoint]bool{}}
	for i := 0; i < reqs && !t.Failed() && !s.hung; i++ {
		v, err := sim.ViewOfChain(wd.N.BestChain())
		if err != nil {
			t.Fatalf("view: %v", err)
		}
		r := c02Request(t, s, v)
		c02Check(t, s, r)
		if i == 0 {
			t.Sample(map[string]interface{}{"coin_shape": shape, "config": cfg, "first_request": r.String()})
		}
		// sometimes another wallet of the same manager is selected (and looked at) before this one is
		// selected again: the drafts handed out so far stay outstanding
		if len(wd.Keys) > 1 && t.R.Chance(20) {
			if _, err := wd.W.W.UseWallet(wd.Keys[1].ID); err != nil {
				t.Fatalf("use other wallet: %v", err)
			}
			if t.R.Bool() {
				wd.W.W.WalletBalance(1, false)
			}
			if _, err := wd.W.W.UseWallet(k.ID); err != nil {
				t.Fatalf("use wallet again: %v", err)
			}
			t.Count("wallet_switches_between_drafts", 1)
		}
		// sometimes a block passes (maturing coinbases); reservations persist
		if t.R.Chance(15) {
			b, err := wd.BuildBlockAvoiding(wd.N.Tip(), nil, 0, map[wire.OutPoint]bool{})
			if err == nil {
				// a block without wallet spends
				b2 := wd.N.NewBlock(wd.N.Tip(), b.Msg.Transactions[:1])
				if wd.N.Extend(b2) == nil {
					wd.W.Deliver(b2)
					wd.Settle()
				}
			}
		}
	}
}

func init() {
	plans := map[string]struct{ cases, reqs int }{
		"quick":    {cases: 160, reqs: 12},
		"thorough": {cases: 1500, reqs: 14},
	}
	core.Register(&core.Property{
		ID:    "C02",
		Level: "exploration",
		Rule: "case = a wallet UTXO set produced by a history (shapes: few coins, 100-700 small coins, one large coin plus dust, mixed magnitudes; immature coinbases; staking/binding coins) and a sequence of consecutive create requests without confirming " +
			"(AutoCreateRawTransaction, CreateRawTransaction with explicit inputs incl. foreign/duplicate ones and fee subtraction, CreateStakingTransaction, CreateBindingTransaction, API AutoCreateTransaction; fees 0/tiny/large/above max_tx_fee; lock time; from/change address; payload). " +
			"Every returned transaction is decoded and checked: inputs own+unspent(+sender address), distinct, under automatic selection mature/standard/unreserved; outputs = requested (minus equal fee shares) + ≤1 change to the right address; inputs−outputs = reported fee ≥ user fee, ≥ relay minimum of the size after the wallet signs it, ≤ max(user fee, relay minimum at standard size); lock time/payload/sequences; " +
			"and the call outcome is checked against must-succeed / must-fail funding regions. distinct_nontrivial = distinct (kind, input-count bucket, output count, coin-count bucket, change) of successes with ≥2 inputs",
		Assumptions: []string{"relay fee 10000 maxwell/kB and max standard size 100000 (mass-core policy constants)", "reservation set tracked by the monitor (wallet lifetimes stay far below the 5-minute cache expiry)", "between the must-succeed and must-fail regions either outcome is accepted"},
		Cases:       func(tier string, seed int64) int { return plans[tier].cases },
		Run:         func(t *core.T) { c02Case(t, plans[t.Tier].reqs) },
	})
}
