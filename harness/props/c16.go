package props

import (
	"bytes"
	"context"
	"encoding/binary"
	"encoding/hex"
	"fmt"

	"github.com/massnetorg/mass-core/consensus"
	"github.com/massnetorg/mass-core/massutil"
	"github.com/massnetorg/mass-core/txscript"
	"github.com/massnetorg/mass-core/wire"
	"massnet.org/mass-wallet/api"
	pb "massnet.org/mass-wallet/api/proto"
	"massnet.org/mass-wallet/config"
	"massnet.org/mass-wallet/masswallet"
	"massnet.org/mass-wallet/masswallet/utils"

	"verifharness/core"
)

// C16 — output-script classification agrees with the consensus templates and never crashes.
// Oracle: the consensus script library itself on the same bytes (GetScriptClass,
// ExtractPkScriptAddrs, massutil address encoders) + the raw template layout for the frozen period.

type c16Ref struct {
	class    txscript.ScriptClass
	wallet   bool // one of the three classes the wallet understands, with encodable addresses
	std      string
	second   string
	stdHash  []byte
	maturity uint64
	matKnown bool
}

func c16Reference(script []byte) c16Ref {
	r := c16Ref{}
	// mass-core's ExtractPkScriptAddrs itself panics on a multisig template with an unparsable
	// public key (nil address dereference); only call it for the wallet's three classes.
	r.class = txscript.GetScriptClass(script)
	if r.class != txscript.WitnessV0ScriptHashTy && r.class != txscript.StakingScriptHashTy && r.class != txscript.BindingScriptHashTy {
		return r
	}
	class, addrs, _, _, err := txscript.ExtractPkScriptAddrs(script, config.ChainParams)
	if err != nil {
		r.class = txscript.NonStandardTy
		return r
	}
	r.class = class
	switch class {
	case txscript.WitnessV0ScriptHashTy:
		if len(addrs) == 1 {
			r.wallet = true
			r.std = addrs[0].EncodeAddress()
			r.stdHash = addrs[0].ScriptAddress()
			r.matKnown = true
		}
	case txscript.StakingScriptHashTy:
		if len(addrs) == 1 {
			std, err := massutil.NewAddressWitnessScriptHash(addrs[0].ScriptAddress(), config.ChainParams)
			if err == nil {
				r.wallet = true
				r.std = std.EncodeAddress()
				r.stdHash = addrs[0].ScriptAddress()
				r.second = addrs[0].EncodeAddress()
				// template: OP_0 OP_DATA_32 <32> OP_DATA_8 <8 LE>
				frozen := binary.LittleEndian.Uint64(script[35:43])
				if frozen != ^uint64(0) {
					r.maturity = frozen + 1
					r.matKnown = true
				}
			}
		}
	case txscript.BindingScriptHashTy:
		if len(addrs) == 2 {
			r.wallet = true
			r.std = addrs[0].EncodeAddress()
			r.stdHash = addrs[0].ScriptAddress()
			r.second = addrs[1].EncodeAddress()
			r.matKnown = true
			if len(addrs[1].ScriptAddress()) == 22 {
				r.maturity = consensus.MASSIP0002BindingLockedPeriod
			}
		}
	}
	return r
}

var c16API *api.APIServer

func c16Server() *api.APIServer {
	if c16API == nil {
		cfg := &config.Config{Core: config.NewDefCoreConfig(), Wallet: config.NewDefWalletConfig()}
		c16API, _ = api.NewAPIServer(nil, nil, func() {}, cfg)
	}
	return c16API
}

func c16Check(t *core.T, script []byte, kind string, viaAPI bool) {
	t.Eval(1)
	w := map[string]interface{}{"script": hex.EncodeToString(script), "kind": kind}
	ref := c16Reference(script)
	var ps utils.PkScript
	var err error
	func() {
		defer func() {
			if e := recover(); e != nil {
				t.Violatef("panic:ParsePkScript", w, "utils.ParsePkScript panicked: %v", e)
				err = fmt.Errorf("panic")
			}
		}()
		ps, err = utils.ParsePkScript(script, config.ChainParams)
	}()
	cls := ref.class.String()
	switch {
	case ref.wallet:
		if err != nil {
			t.Violatef("rejects-template:"+cls, w, "ParsePkScript rejects a %s script the consensus library reads: %v", cls, err)
			break
		}
		func() {
			defer func() {
				if e := recover(); e != nil {
					t.Violatef("panic:PkScript-accessor:"+cls, w, "accessor panicked: %v", e)
				}
			}()
			if ps.ScriptClass() != ref.class {
				t.Violatef("class-mismatch", w, "class %v, consensus %v", ps.ScriptClass(), ref.class)
			}
			if ps.StdEncodeAddress() != ref.std || !bytes.Equal(ps.StdScriptAddress(), ref.stdHash) || ps.StdAddress().EncodeAddress() != ref.std {
				t.Violatef("std-address-mismatch:"+cls, w, "owner address %s, consensus %s", ps.StdEncodeAddress(), ref.std)
			}
			if ps.IsStaking() != (ref.class == txscript.StakingScriptHashTy) || ps.IsBinding() != (ref.class == txscript.BindingScriptHashTy) {
				t.Violatef("class-flags-mismatch:"+cls, w, "IsStaking=%v IsBinding=%v for %s", ps.IsStaking(), ps.IsBinding(), cls)
			}
			wantAC := uint16(massutil.AddressClassWitnessV0)
			if ref.class == txscript.StakingScriptHashTy {
				wantAC = massutil.AddressClassWitnessStaking
			}
			if ps.AddressClass() != wantAC {
				t.Violatef("address-class-mismatch:"+cls, w, "AddressClass=%d want %d", ps.AddressClass(), wantAC)
			}
			if ref.second != "" {
				if ps.SecondEncodeAddress() != ref.second || ps.SecondAddress().EncodeAddress() != ref.second {
					t.Violatef("second-address-mismatch:"+cls, w, "staking/binding address %s, consensus %s", ps.SecondEncodeAddress(), ref.second)
				}
			}
			if ref.matKnown && ps.Maturity() != ref.maturity {
				t.Violatef("maturity-mismatch:"+cls, w, "maturity %d want %d", ps.Maturity(), ref.maturity)
			}
		}()
	default:
		// not one of the wallet's templates (or not encodable): must be reported as unsupported
		if err == nil {
			t.Violatef("accepts-non-template:"+cls, w, "ParsePkScript accepts a script consensus classifies as %s (as %v)", cls, ps.ScriptClass())
		} else if err != utils.ErrUnsupportedScript && err.Error() != "panic" {
			if ref.class == txscript.BindingScriptHashTy || ref.class == txscript.StakingScriptHashTy || ref.class == txscript.WitnessV0ScriptHashTy {
				// template matched but the consensus library itself cannot encode an address
				// (illegal binding target bytes): any rejection is an admissible reading
				t.Count("unencodable_template_rejected", 1)
			} else {
				t.Violatef("unsupported-not-reported-as-unsupported:"+cls, w, "ParsePkScript reads a %s script as a hard error (%v) instead of ErrUnsupportedScript", cls, err)
			}
		}
	}
	t.Nontrivial(fmt.Sprintf("%s:%s:len%d", kind, cls, lenBucket(len(script))))
	t.Count("class_"+cls, 1)

	if viaAPI {
		t.Eval(1)
		tx := wire.NewMsgTx()
		tx.AddTxIn(wire.NewTxIn(wire.NewOutPoint(&wire.Hash{1}, 0), nil))
		tx.AddTxOut(wire.NewTxOut(12345, script))
		raw, e := tx.Bytes(wire.Packet)
		if e != nil {
			return
		}
		var resp *pb.DecodeRawTransactionResponse
		var aerr error
		func() {
			defer func() {
				if e := recover(); e != nil {
					t.Violatef("panic:DecodeRawTransaction:"+cls, w, "api.DecodeRawTransaction panicked: %v", e)
					aerr = fmt.Errorf("panic")
				}
			}()
			resp, aerr = c16Server().DecodeRawTransaction(context.Background(), &pb.DecodeRawTransactionRequest{Hex: hex.EncodeToString(raw)})
		}()
		if ref.wallet {
			if aerr != nil || resp == nil || len(resp.Vout) != 1 {
				t.Violatef("api-rejects-template:"+cls, w, "DecodeRawTransaction fails on a %s output: %v", cls, aerr)
				return
			}
			v := resp.Vout[0]
			if v.Type != uint32(ref.class) || v.RecipientAddress != ref.std {
				t.Violatef("api-view-mismatch:"+cls, w, "type %d recipient %s, consensus %d %s", v.Type, v.RecipientAddress, ref.class, ref.std)
			}
			if ref.class == txscript.StakingScriptHashTy && v.StakingAddress != ref.second {
				t.Violatef("api-view-mismatch:staking-address", w, "staking address %s want %s", v.StakingAddress, ref.second)
			}
			if ref.class == txscript.BindingScriptHashTy && (len(v.BindingTarget) < len(ref.second) || v.BindingTarget[:len(ref.second)] != ref.second) {
				t.Violatef("api-view-mismatch:binding-target", w, "binding target %s want prefix %s", v.BindingTarget, ref.second)
			}
		} else if aerr == nil && resp != nil && len(resp.Vout) == 1 {
			if resp.Vout[0].Type != uint32(ref.class) {
				t.Violatef("api-view-mismatch:type", w, "type %d, consensus %d", resp.Vout[0].Type, ref.class)
			}
		}
		t.Count("api_views", 1)
	}
}

func lenBucket(n int) int {
	switch {
	case n < 34:
		return 0
	case n == 34:
		return 34
	case n < 43:
		return 35
	case n == 43:
		return 43
	case n < 55:
		return 44
	case n == 55, n == 57:
		return n
	default:
		return 99
	}
}

func c16Frozen(r *core.Rand) uint64 {
	min := consensus.MinFrozenPeriod
	switch r.Intn(10) {
	case 0:
		return 0
	case 1:
		return 1
	case 2:
		return min - 1
	case 3:
		return min
	case 4:
		return 1<<32 - 1
	case 5:
		return 1 << 63
	case 6:
		return ^uint64(0)
	case 7:
		return 1<<32 - 2
	default:
		return r.Uint64() >> uint(r.Intn(64))
	}
}

func c16Template(r *core.Rand) ([]byte, string) {
	h := r.Bytes(32)
	switch r.Intn(6) {
	case 0:
		s, _ := txscript.PayToWitnessScriptHashScript(h)
		return s, "p2wsh"
	case 1:
		addr, _ := massutil.NewAddressStakingScriptHash(h, config.ChainParams)
		// consensus builder refuses illegal frozen periods: build the template by hand then
		fr := c16Frozen(r)
		s := append([]byte{0x00, 0x20}, h...)
		s = append(s, 0x08)
		var b [8]byte
		binary.LittleEndian.PutUint64(b[:], fr)
		s = append(s, b[:]...)
		if s2, err := txscript.PayToStakingAddrScript(addr, fr); err == nil && !bytes.Equal(s, s2) {
			return s2, "staking-builder"
		}
		return s, "staking"
	case 2:
		s, _ := txscript.PayToBindingScriptHashScript(h, r.Bytes(20))
		return s, "binding-old"
	case 3:
		tgt := r.Bytes(22)
		tgt[20] = byte(r.Intn(2))
		tgt[21] = byte(r.Range(20, 200))
		s, _ := txscript.PayToBindingScriptHashScript(h, tgt)
		return s, "binding-new"
	case 4: // 22-byte target with illegal type / size bytes
		tgt := r.Bytes(22)
		if r.Bool() {
			tgt[20] = byte(r.Range(2, 255))
		} else {
			tgt[20] = byte(r.Intn(2))
			tgt[21] = []byte{0, 1, 19, 201, 255}[r.Intn(5)]
		}
		s := append([]byte{0x00, 0x20}, h...)
		s = append(s, 22)
		s = append(s, tgt...)
		return s, "binding-new-badtarget"
	default: // other target lengths
		l := []int{0, 1, 8, 19, 21, 23, 32, 33}[r.Intn(8)]
		s := append([]byte{0x00, 0x20}, h...)
		s = append(s, byte(l))
		s = append(s, r.Bytes(l)...)
		return s, fmt.Sprintf("third-push-%d", l)
	}
}

func c16Mutate(r *core.Rand, s []byte) ([]byte, string) {
	m := append([]byte{}, s...)
	switch r.Intn(8) {
	case 0:
		if len(m) > 0 {
			m = m[:r.Intn(len(m))]
		}
		return m, "truncate"
	case 1:
		return append(m, r.Bytes(r.Range(1, 5))...), "extra-bytes"
	case 2:
		if len(m) > 0 {
			m[r.Intn(len(m))] ^= byte(r.Range(1, 255))
		}
		return m, "flip-byte"
	case 3:
		if len(m) > 0 {
			m[0] = []byte{0x51, 0x60, 0x4f, 0x01, 0x6a, 0x00}[r.Intn(6)]
		}
		return m, "version-opcode"
	case 4: // OP_PUSHDATA1 form of the hash push
		if len(m) >= 34 {
			m = append([]byte{m[0], 0x4c, 0x20}, m[2:]...)
		}
		return m, "pushdata1"
	case 5:
		if len(m) >= 2 {
			m[1] = byte(r.Range(0, 0x4e))
		}
		return m, "hash-push-length"
	case 6: // OP_RETURN data
		d := r.Bytes(r.Range(0, 90))
		out := []byte{0x6a}
		if len(d) > 0 {
			if len(d) < 0x4c {
				out = append(out, byte(len(d)))
			} else {
				out = append(out, 0x4c, byte(len(d)))
			}
			out = append(out, d...)
		}
		return out, "nulldata"
	default: // multisig 1-of-1 redeem-like script
		pk := append([]byte{0x02}, r.Bytes(32)...)
		out := append([]byte{0x51, 33}, pk...)
		out = append(out, 0x51, 0xae)
		return out, "multisig"
	}
}

func init() {
	type plan struct{ chunks, per, apiEvery int }
	plans := map[string]plan{
		"quick":    {chunks: 32, per: 6500, apiEvery: 8},
		"thorough": {chunks: 256, per: 80000, apiEvery: 20},
	}
	core.Register(&core.Property{
		ID:    "C16",
		Level: "exploration",
		Rule: "cases = the three wallet templates over random hashes / frozen periods {0,1,min-1,min,2^32-1,2^63,2^64-1,random} / 20- and 22-byte targets (legal and illegal type and size bytes) / other push lengths, mutated templates " +
			"(truncate, extra bytes, byte flip, version opcode, OP_PUSHDATA1 form, push length, null-data, multisig) and random byte strings up to 300 bytes; every script goes through utils.ParsePkScript (all accessors, under recover) and a sample through " +
			"api.DecodeRawTransaction; builders (PayToWitnessV0Address, consensus staking/binding builders) are read back. Oracle = consensus library on the same bytes. distinct_nontrivial = distinct (generator kind, consensus class, length bucket)",
		Assumptions: []string{"mass-core txscript / massutil are the reference (trusted)", "maturity of a staking template with frozen period 2^64-1 is left unspecified (frozen+1 overflows)"},
		Cases:       func(tier string, seed int64) int { return plans[tier].chunks + 1 },
		Run: func(t *core.T) {
			p := plans[t.Tier]
			if t.Index == 0 {
				c16Builders(t)
				return
			}
			for n := 0; n < p.per; n++ {
				var s []byte
				var kind string
				switch t.R.Pick(4, 4, 2) {
				case 0:
					s, kind = c16Template(t.R)
				case 1:
					s, kind = c16Template(t.R)
					var mk string
					s, mk = c16Mutate(t.R, s)
					kind = "mut:" + mk
				default:
					s = t.R.Bytes(t.R.Intn(301))
					kind = "random"
				}
				c16Check(t, s, kind, n%p.apiEvery == 0)
				if n == 0 {
					t.Sample(map[string]interface{}{"kind": kind, "script": hex.EncodeToString(s)})
				}
			}
		},
	})
}

// c16Builders: scripts the wallet builds for an address read back to that address.
func c16Builders(t *core.T) {
	for n := 0; n < 3000; n++ {
		h := t.R.Bytes(32)
		addr, err := massutil.NewAddressWitnessScriptHash(h, config.ChainParams)
		if err != nil {
			t.Fatalf("address: %v", err)
		}
		t.Eval(1)
		w := map[string]interface{}{"address": addr.EncodeAddress()}
		script, err := masswallet.PayToWitnessV0Address(addr.EncodeAddress(), config.ChainParams)
		if err != nil {
			t.Violatef("builder-rejects-address", w, "PayToWitnessV0Address: %v", err)
			continue
		}
		ps, err := utils.ParsePkScript(script, config.ChainParams)
		if err != nil || ps.StdEncodeAddress() != addr.EncodeAddress() || ps.IsStaking() || ps.IsBinding() {
			t.Violatef("builder-readback-mismatch:p2wsh", w, "script built for %s reads back differently (%v)", addr.EncodeAddress(), err)
		}
		// a staking address must be refused by the standard builder
		st, _ := massutil.NewAddressStakingScriptHash(h, config.ChainParams)
		if _, err := masswallet.PayToWitnessV0Address(st.EncodeAddress(), config.ChainParams); err == nil {
			t.Violatef("builder-accepts-staking-address", w, "PayToWitnessV0Address accepts a staking address")
		}
		// staking builder as used by constructStakingTxOut
		fr := consensus.MinFrozenPeriod + uint64(t.R.Intn(100000))
		if s2, err := txscript.PayToStakingAddrScript(st, fr); err == nil {
			ps, err := utils.ParsePkScript(s2, config.ChainParams)
			if err != nil || ps.SecondEncodeAddress() != st.EncodeAddress() || ps.Maturity() != fr+1 || ps.StdEncodeAddress() != addr.EncodeAddress() {
				t.Violatef("builder-readback-mismatch:staking", w, "staking script for %s/%d reads back differently (%v)", st.EncodeAddress(), fr, err)
			}
		}
		// binding builder as used by EstimateBindingTxFee
		tgt := t.R.Bytes(22)
		tgt[20] = byte(t.R.Intn(2))
		tgt[21] = byte(t.R.Range(20, 200))
		ta, err := massutil.NewAddressBindingTarget(tgt, config.ChainParams)
		if err == nil {
			if s3, err := txscript.PayToBindingScriptHashScript(addr.ScriptAddress(), ta.ScriptAddress()); err == nil {
				ps, err := utils.ParsePkScript(s3, config.ChainParams)
				if err != nil || ps.SecondEncodeAddress() != ta.EncodeAddress() || ps.StdEncodeAddress() != addr.EncodeAddress() || !ps.IsBinding() {
					t.Violatef("builder-readback-mismatch:binding", w, "binding script reads back differently (%v)", err)
				}
			}
		}
	}
	t.Nontrivial("builders")
}
