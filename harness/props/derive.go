package props

import (
	"crypto/sha256"
	"fmt"

	"github.com/massnetorg/mass-core/massutil"
	"github.com/massnetorg/mass-core/massutil/bech32"
	"massnet.org/mass-wallet/config"
)

// Independent derivation of a wallet's identity and addresses from (mnemonic, private
// passphrase): reference PBKDF2 seed (c13.go) → reference BIP-32 (c14.go) along
// m/44'/coin'/1'/0/i → 1-of-1 multisig witness script hash → address.

type refWallet struct {
	Acct, Ext *refXKey
	// ShortRisk: a parent of a hardened step has a scalar with a leading zero byte: hdkeychain
	// (known finding C14) derives other keys than BIP-32 there.
	ShortRisk bool
}

func refWalletFrom(mnemonic, pass string) (*refWallet, error) {
	seed := refBip39Seed(mnemonic, pass)
	m, ok := refMaster(seed)
	if !ok {
		return nil, fmt.Errorf("unusable seed")
	}
	purpose, ok1 := refCKDPriv(m, 0x80000000+44)
	if !ok1 {
		return nil, fmt.Errorf("invalid child")
	}
	coin, ok2 := refCKDPriv(purpose, 0x80000000+config.ChainParams.HDCoinType)
	if !ok2 {
		return nil, fmt.Errorf("invalid child")
	}
	acct, ok3 := refCKDPriv(coin, 0x80000000+1)
	if !ok3 {
		return nil, fmt.Errorf("invalid child")
	}
	ext, ok4 := refCKDPriv(acct, 0)
	if !ok4 {
		return nil, fmt.Errorf("invalid child")
	}
	return &refWallet{Acct: acct, Ext: ext, ShortRisk: purpose.Priv[0] == 0 || coin.Priv[0] == 0}, nil
}

func (w *refWallet) ID() string {
	h := refHash160(w.Acct.Pub[:])
	conv, err := bech32.ConvertBits(h, 8, 5, true)
	if err != nil {
		return ""
	}
	s, _ := bech32.Encode("ac", append([]byte{15}, conv...))
	return s
}

// Key returns the reference key at external index i.
func (w *refWallet) Key(i uint32) (*refXKey, bool) { return refCKDPriv(w.Ext, i) }

func redeemScript1of1(pub []byte) []byte {
	s := []byte{0x51, 0x21}
	s = append(s, pub...)
	return append(s, 0x51, 0xae)
}

// Address returns (standard address, staking address, script hash) at external index i.
func (w *refWallet) Address(i uint32) (string, string, [32]byte, bool) {
	k, ok := w.Key(i)
	if !ok {
		return "", "", [32]byte{}, false
	}
	h := sha256.Sum256(redeemScript1of1(k.Pub[:]))
	std, err1 := massutil.NewAddressWitnessScriptHash(h[:], config.ChainParams)
	stk, err2 := massutil.NewAddressStakingScriptHash(h[:], config.ChainParams)
	if err1 != nil || err2 != nil {
		return "", "", h, false
	}
	return std.EncodeAddress(), stk.EncodeAddress(), h, true
}

// InternalKey returns the reference key at index i of the internal (change) branch m/44'/coin'/1'/1/i.
func (w *refWallet) InternalKey(i uint32) (*refXKey, bool) {
	br, ok := refCKDPriv(w.Acct, 1)
	if !ok {
		return nil, false
	}
	return refCKDPriv(br, i)
}
