package props

import (
	"bytes"
	"fmt"
	"sort"
	"strings"
	"sync"
	"time"

	"github.com/massnetorg/mass-core/massutil"
	"github.com/massnetorg/mass-core/wire"
	"github.com/syndtr/goleveldb/leveldb"
	"github.com/syndtr/goleveldb/leveldb/opt"
	"massnet.org/mass-wallet/masswallet/keystore"

	"verifharness/core"
	"verifharness/sim"
)

// C08 — removing a wallet erases it completely and leaves every other wallet intact.
// Monitors: raw residue scan of the closed database (wallet id, every address string in both
// encodings, every 32-byte script hash) with an explicitly defined allowed residue; survivors ==
// reference ledger and still able to build and sign; re-import of the removed mnemonic == ledger.

type c08Residue struct {
	key, what string
}

// scanResidue iterates the raw database. Allowed residue: serialized transactions in the pending
// bucket (t/m) that also pay or spend a surviving wallet.
func scanResidue(dir string, removed *sim.WalletKeys, survivors map[[32]byte]bool, v *sim.View, allOuts map[wire.OutPoint]*sim.Out) ([]c08Residue, int, error) {
	db, err := leveldb.OpenFile(dir, &opt.Options{ErrorIfMissing: true})
	if err != nil {
		return nil, 0, err
	}
	defer db.Close()
	type nd struct {
		b    []byte
		what string
	}
	var needles []nd
	needles = append(needles, nd{[]byte(removed.ID), "wallet id"})
	for _, h := range removed.Hashes {
		hh := h
		needles = append(needles, nd{append([]byte{}, hh[:]...), "script hash of " + sim.StdAddr(hh)})
		needles = append(needles, nd{[]byte(sim.StdAddr(hh)), "address " + sim.StdAddr(hh)})
		needles = append(needles, nd{[]byte(sim.StakingAddr(hh)), "staking address " + sim.StakingAddr(hh)})
	}
	var res []c08Residue
	n := 0
	it := db.NewIterator(nil, nil)
	defer it.Release()
	for it.Next() {
		n++
		k, val := it.Key(), it.Value()
		for _, nd := range needles {
			if !bytes.Contains(k, nd.b) && !bytes.Contains(val, nd.b) {
				continue
			}
			// allowed residue: pending transaction bodies a survivor still needs
			if bytes.HasPrefix(k, []byte("2_t_m_")) && len(val) > 8 {
				var tx wire.MsgTx
				if tx.SetBytes(val[8:], wire.DB) == nil {
					needed := false
					for _, o := range tx.TxOut {
						ro := sim.ReadOut(wire.OutPoint{}, o, 0, false)
						if ro.HasHash && survivors[ro.Hash] {
							needed = true
						}
					}
					for _, in := range tx.TxIn {
						if o := v.Outs[in.PreviousOutPoint]; o != nil && o.HasHash && survivors[o.Hash] {
							needed = true
						}
						// the spent output may live on an abandoned branch
						if o := allOuts[in.PreviousOutPoint]; o != nil && o.HasHash && survivors[o.Hash] {
							needed = true
						}
					}
					if needed {
						continue
					}
				}
			}
			res = append(res, c08Residue{key: fmt.Sprintf("%q", trunc(k)), what: nd.what})
			break
		}
	}
	return res, n, it.Error()
}

func c08Case(t *core.T, big bool) {
	cfg := worldCfg{Maturity: uint64(t.R.Range(2, 4)), Wallets: t.R.Range(2, 4), Staking: t.R.Chance(60), BindingOld: t.R.Chance(50), Gap: 20}
	if big {
		cfg.Wallets = 2
	}
	wd := newWorld(t, cfg)
	stopped := false
	defer func() {
		if !stopped {
			closeWorld(t, wd)
		} else {
			wd.N.Close()
			restoreConsensus()
		}
	}()
	wd.StrangerPub()
	victim := wd.Keys[t.R.Intn(len(wd.Keys))]
	fail := func(sig, msg string) {
		w := wd.Witness()
		w["removed_wallet"] = victim.ID
		if fe := sim.FatalEvents(); len(fe) > 0 {
			w["fatal_events"] = fe
		}
		t.Violate(sig, msg, w)
	}
	bigSpendBlocks := 0
	// history
	steps := t.R.Range(12, 35)
	for i := 0; i < steps; i++ {
		if t.R.Chance(15) && wd.N.Height() > 3 {
			d := t.R.Range(1, 3)
			nb, _, err := wd.Fork(d, d+t.R.Range(0, 1), 2)
			if err != nil {
				t.Fatalf("fork: %v", err)
			}
			if nb != nil {
				wd.W.Deliver(nb)
			}
			continue
		}
		b, err := wd.Extend(t.R.Range(1, 4))
		if err != nil {
			t.Fatalf("extend: %v", err)
		}
		wd.W.Deliver(b)
	}
	if big {
		// > 20 000 credits for the victim: the second removal phase needs several rounds
		str := wd.StrangerPub()
		nblk := []int{106, 106, 212}[t.R.Intn(3)]
		for blk := 0; blk < nblk; blk++ {
			var outs []*wire.TxOut
			for i := 0; i < 200; i++ {
				outs = append(outs, wire.NewTxOut(int64(1000+i), sim.P2WSH(victim.Hashes[i%len(victim.Hashes)])))
			}
			cb := sim.Coinbase(wd.N.Height()+1, t.R.Uint64(), []*wire.TxOut{wire.NewTxOut(1, sim.P2WSH(str))})
			// fan-out from a coinbase-funded stranger output is not needed: coinbase may carry them
			cb.TxOut = append(cb.TxOut, outs...)
			b := wd.N.NewBlock(wd.N.Tip(), []*wire.MsgTx{cb})
			if err := wd.N.Extend(b); err != nil {
				t.Fatalf("extend: %v", err)
			}
			wd.W.Deliver(b)
		}
		wd.Logf("(%d blocks with 200 payments each to the wallet to be removed)", nblk)
		// half of those coins are spent again (every second output of every fan-out coinbase, 100 inputs
		// per transaction): a removal round that stops at its limit is then as likely to stop on a spent
		// coin - with a debit and a spender record - as on an unspent one
		for i := 0; i < int(cfg.Maturity)+1; i++ {
			b := wd.N.NewBlock(wd.N.Tip(), []*wire.MsgTx{sim.Coinbase(wd.N.Height()+1, t.R.Uint64(), []*wire.TxOut{wire.NewTxOut(1, sim.P2WSH(str))})})
			if err := wd.N.Extend(b); err != nil {
				t.Fatalf("extend: %v", err)
			}
			wd.W.Deliver(b)
		}
		bestNow := wd.N.BestChain()
		spendBlocks := 0
		for _, fb := range bestNow {
			cbt := fb.Msg.Transactions[0]
			if len(cbt.TxOut) != 201 {
				continue
			}
			h := cbt.TxHash()
			var ins []wire.OutPoint
			var sum int64
			for i := 1; i <= 200; i += 2 {
				ins = append(ins, wire.OutPoint{Hash: h, Index: uint32(i)})
				sum += cbt.TxOut[i].Value
			}
			sp := sim.Spend(ins, nil, []*wire.TxOut{wire.NewTxOut(sum-1000, sim.P2WSH(str))}, t.R.Uint64()|1)
			cb := sim.Coinbase(wd.N.Height()+1, t.R.Uint64(), []*wire.TxOut{wire.NewTxOut(1, sim.P2WSH(str))})
			b := wd.N.NewBlock(wd.N.Tip(), []*wire.MsgTx{cb, sp})
			if err := wd.N.Extend(b); err != nil {
				t.Fatalf("extend (spend block): %v", err)
			}
			wd.W.Deliver(b)
			spendBlocks++
		}
		bigSpendBlocks = spendBlocks
		wd.Logf("(%d blocks each spending 100 of those coins)", spendBlocks)
	}
	// when the wallet to be removed holds a withdrawable staking or binding deposit, the last block before
	// the removal withdraws it: a reorganisation during the removal then has to give the deposit back
	// (history row and all) to a wallet that is half gone
	withdrawalMined := false
	if !big {
		if !wd.Settle() {
			t.Inconclusive("handler not idle")
			return
		}
		if vw, err := sim.ViewOfChain(wd.N.BestChain()); err == nil {
			for _, o := range vw.SortedOuts() {
				if o.Spent || !o.HasHash || !victim.Owned[o.Hash] || o.Class == sim.ClassStd || !vw.Mature(o) || o.Value < 100000 || len(victim.Hashes) == 0 {
					continue
				}
				seq := uint64(wire.MaxTxInSequenceNum)
				if o.Class == sim.ClassStaking {
					seq = o.Frozen + 1
				} else if o.Maturity() != 0 {
					seq = o.Maturity()
				}
				wtx := sim.Spend([]wire.OutPoint{o.OP}, []uint64{seq}, []*wire.TxOut{wire.NewTxOut(o.Value-1000, sim.P2WSH(victim.Hashes[0]))}, t.R.Uint64()|1)
				b, err := wd.BuildBlock(wd.N.Tip(), []*wire.MsgTx{wtx}, 0)
				if err != nil || len(b.Msg.Transactions) < 2 {
					break
				}
				if err := wd.N.Extend(b); err != nil {
					t.Fatalf("extend (withdrawal block): %v", err)
				}
				wd.Logf("extend %s (withdraws deposit %v of the wallet to be removed)", wd.BlockDesc(b), o.OP)
				wd.W.Deliver(b)
				withdrawalMined = true
				t.Count("cases_with_a_deposit_of_the_victim_withdrawn_just_before_the_removal", 1)
				break
			}
		}
	}
	// a few pending transactions (some touching the victim, some shared)
	if !wd.Settle() {
		t.Inconclusive("handler not idle")
		return
	}
	v, _ := sim.ViewOfChain(wd.N.BestChain())
	owned := wd.AllOwned()
	pend := 0
	forkedAfterPending := false
	var pendList []*wire.MsgTx
	// coins of transactions that pay two wallets come first (the outputs of one transaction are
	// neighbours in every outpoint-keyed bucket)
	walletsPaidBy := map[wire.Hash]map[int]bool{}
	for _, o := range v.SortedOuts() {
		if wi, mine := owned[o.Hash]; mine && o.HasHash {
			if walletsPaidBy[o.OP.Hash] == nil {
				walletsPaidBy[o.OP.Hash] = map[int]bool{}
			}
			walletsPaidBy[o.OP.Hash][wi] = true
		}
	}
	cand := v.SortedOuts()
	sort.SliceStable(cand, func(i, j int) bool {
		return len(walletsPaidBy[cand[i].OP.Hash]) > 1 && len(walletsPaidBy[cand[j].OP.Hash]) <= 1
	})
	for _, o := range cand {
		if pend >= 4 {
			break
		}
		if _, mine := owned[o.Hash]; mine && o.HasHash && !o.Spent && o.Class == sim.ClassStd && v.Mature(o) && o.Value > 100000 {
			h2, _ := wd.WalletHashPub()
			ptx := sim.Spend([]wire.OutPoint{o.OP}, nil, []*wire.TxOut{wire.NewTxOut(o.Value/2, sim.P2WSH(h2)), wire.NewTxOut(o.Value/2-1000, sim.P2WSH(wd.StrangerPub()))}, t.R.Uint64()|1)
			wd.W.DeliverTx(ptx)
			wd.Logf("recv pending %s", ptx.TxHash().String()[:10])
			pendList = append(pendList, ptx)
			if len(walletsPaidBy[o.OP.Hash]) > 1 {
				t.Count("pending_spends_of_a_coin_whose_transaction_pays_two_wallets", 1)
			}
			pend++
		}
	}
	if !wd.Settle() {
		t.Inconclusive("handler not idle")
		return
	}
	if d := wd.CheckLedger(sim.CompareOpts{Histories: true, AddrBal: true}); len(d) > 0 {
		reportLedgerDiffs(t, wd, d, "before the removal")
		return
	}
	// in half of the big cases the worker is parked between two removal rounds and the wallet
	// is restarted there
	restartBetweenRounds := big && t.R.Bool()
	g := &gate{}
	parked := make(chan struct{})
	quitClosed := make(chan struct{})
	if restartBetweenRounds {
		g.Close()
		var rounds int
		var mu sync.Mutex
		var onceQ sync.Once
		wd.W.Points.SetFn(func(name string) {
			switch name {
			case "remove.round":
				mu.Lock()
				rounds++
				r := rounds
				mu.Unlock()
				if r == 2 {
					close(parked)
					g.Wait()
				}
			case "stop.quitclosed":
				onceQ.Do(func() { close(quitClosed) })
			}
		})
	}
	// in most other cases the worker is parked between the first removal phase and the first
	// round of the second, and the chain goes on paying and spending coins of the wallet under
	// removal there (the follower runs, the wallet's balance rows are already gone)
	touchVictim := !restartBetweenRounds && t.R.Chance(65)
	if touchVictim {
		g.Close()
		var once sync.Once
		wd.W.Points.SetFn(func(name string) {
			if name == "remove.round" {
				first := false
				once.Do(func() { first = true })
				if first {
					close(parked)
					g.Wait()
				}
			}
		})
	}
	defer g.Open()
	// removal
	t.Eval(1)
	if err := wd.W.W.RemoveWallet(victim.ID, victim.Pass); err != nil {
		fail("removal-refused", fmt.Sprintf("RemoveWallet with the right passphrase on a ready wallet: %v", err))
		return
	}
	wd.Logf("RemoveWallet(%s) accepted", victim.ID[:8])
	var survivors []*sim.WalletKeys
	for _, k := range wd.Keys {
		if k != victim {
			survivors = append(survivors, k)
		}
	}
	allKeys := wd.Keys
	wd.Keys = survivors
	if touchVictim {
		select {
		case <-parked:
			wd.Keys = allKeys
			if (withdrawalMined || t.R.Bool()) && wd.N.Height() > 4 {
				// a reorganisation that takes blocks with the victim's spends and payments off the chain
				d := t.R.Range(1, 3)
				forkedAfterPending = true
				if nb, _, err := wd.Fork(d, d+t.R.Range(0, 1), 2); err == nil && nb != nil {
					wd.W.Deliver(nb)
					t.Count("cases_with_reorg_between_removal_phases", 1)
				}
			}
			for j := 0; j < t.R.Range(1, 3); j++ {
				b, err := wd.Extend(t.R.Range(2, 4))
				if err != nil {
					t.Fatalf("extend: %v", err)
				}
				wd.W.Deliver(b)
			}
			wd.W.Quiesce(30 * time.Second)
			wd.Keys = survivors
			wd.Logf("(the blocks above arrived between the first and the second removal phase)")
			t.Count("cases_with_victim_blocks_between_removal_phases", 1)
		case <-time.After(20 * time.Second):
		}
		g.Open()
	}
	// blocks keep arriving while the removal runs; optionally a restart between rounds
	restarted := 0
	for i := 0; i < t.R.Range(1, 4); i++ {
		b, err := wd.Extend(t.R.Range(0, 2))
		if err != nil {
			t.Fatalf("extend: %v", err)
		}
		wd.W.Deliver(b)
		if restartBetweenRounds && i == 0 {
			// restart between two removal rounds
			select {
			case <-parked:
			case <-time.After(20 * time.Second):
				g.Open()
				continue
			}
			stopDone := make(chan bool, 1)
			oldW := wd.W
			go func() { stopDone <- oldW.Stop(60 * time.Second) }()
			select {
			case <-quitClosed:
			case <-time.After(10 * time.Second):
			}
			g.Open()
			if !<-stopDone {
				t.Inconclusive("Stop during removal did not return (C20's subject)")
				stopped = true
				return
			}
			w2, err := sim.OpenWallet(wd.N, wd.W.Dir, wd.W.Cfg)
			if err != nil {
				fail("reopen-failed-during-removal", err.Error())
				stopped = true
				return
			}
			if err := w2.Start(); err != nil {
				fail("restart-failed-during-removal", err.Error())
				w2.CloseUnstarted()
				stopped = true
				return
			}
			wd.W = w2
			restarted++
			wd.Logf("-- restart during the removal")
		}
	}
	deadline := time.Now().Add(120 * time.Second)
	gone := false
	for time.Now().Before(deadline) {
		ws, err := wd.W.W.Wallets()
		if err == nil {
			gone = true
			for _, s := range ws {
				if s.WalletID == victim.ID {
					gone = false
				}
			}
		}
		if gone || len(sim.FatalEvents()) > 0 {
			break
		}
		time.Sleep(2 * time.Millisecond)
	}
	if fe := sim.FatalEvents(); len(fe) > 0 {
		fail("worker-died-during-removal", "the background worker panicked during the removal: "+firstLineOf(fe[0]))
		return
	}
	if !gone {
		if ok, sum, full := c20Structural(); ok {
			w := wd.Witness()
			w["goroutines"], w["dump"] = sum, full
			t.Violate("removal-never-finishes", "the removed wallet is still listed and every wallet goroutine is idle: nobody will finish the removal", w)
			return
		}
		t.Inconclusive("removal not finished after 120s (no structural witness)")
		return
	}
	rounds := int(wd.W.Points.Count("remove.round"))
	if !wd.Settle() {
		t.Inconclusive("handler not idle")
		return
	}
	// big cases: one deep reorganisation that takes half of the blocks spending the removed wallet's
	// coins off the chain again (whatever the removal left behind for them must not stop the follower)
	if big && bigSpendBlocks > 2 {
		d := bigSpendBlocks/2 + t.R.Range(0, 3)
		forkedAfterPending = true
		nb, _, err := wd.Fork(d, d+1, 0)
		if err != nil {
			t.Fatalf("fork: %v", err)
		}
		if nb != nil {
			wd.W.Deliver(nb)
			wd.Logf("(deep reorg after the removal of the big wallet)")
			t.Count("deep_reorgs_after_big_removal", 1)
		}
		if b, err := wd.Extend(1); err == nil {
			wd.W.Deliver(b)
		}
		if !wd.Settle() {
			t.Inconclusive("handler not idle after the deep reorganisation")
			return
		}
	}
	// the chain keeps moving after the removal: reorganisations that disconnect blocks from
	// before it (transactions that paid or spent both the removed wallet and a survivor)
	if !big {
		for i := 0; i < t.R.Range(0, 3); i++ {
			h := int(wd.N.Height())
			d := t.R.Range(1, minInt(6, h-2))
			forkedAfterPending = true
			nb, _, err := wd.Fork(d, d+t.R.Range(0, 1), 2)
			if err != nil {
				t.Fatalf("fork: %v", err)
			}
			if nb != nil {
				wd.W.Deliver(nb)
				wd.Logf("(reorg after the removal)")
			}
			b, err := wd.Extend(t.R.Range(0, 2))
			if err != nil {
				t.Fatalf("extend: %v", err)
			}
			wd.W.Deliver(b)
		}
		if !wd.Settle() {
			t.Inconclusive("handler not idle")
			return
		}
	}
	// survivors intact
	t.Eval(1)
	if d := wd.CheckLedger(sim.CompareOpts{Histories: true, AddrBal: true}); len(d) > 0 {
		var lines []string
		for id, dd := range d {
			for _, x := range dd {
				lines = append(lines, id+": "+x)
			}
		}
		sort.Strings(lines)
		fail("survivor-changed-by-removal", "after the removal a surviving wallet differs from the ledger: "+strings.Join(lines, " | "))
		return
	}
	// a pending transaction that is still pending (not mined, no input spent on the best chain) keeps
	// the survivors' coins it spends flagged as spent by an unconfirmed transaction
	// (only in histories without a reorganisation since the pending transactions were received: a
	// transaction double-spent on a branch that was abandoned later is gone although the final chain
	// shows no conflict)
	if !forkedAfterPending {
		vv, _ := sim.ViewOfChain(wd.N.BestChain())
		for _, ptx := range pendList {
			if _, mined := vv.Txs[ptx.TxHash()]; mined {
				continue
			}
			alive := true
			for _, in := range ptx.TxIn {
				if o := vv.Outs[in.PreviousOutPoint]; o == nil || o.Spent {
					alive = false
				}
			}
			if !alive {
				continue
			}
			for _, in := range ptx.TxIn {
				o := vv.Outs[in.PreviousOutPoint]
				for _, k := range survivors {
					if !k.Owned[o.Hash] {
						continue
					}
					if _, err := wd.W.W.UseWallet(k.ID); err != nil {
						continue
					}
					us, err := wd.W.W.GetUtxo(nil)
					if err != nil {
						continue
					}
					t.Eval(1)
					for _, l := range us {
						for _, u := range l {
							if u.TxId == in.PreviousOutPoint.Hash.String() && u.Vout == in.PreviousOutPoint.Index && !u.SpentByUnmined {
								fail("survivor-changed-by-removal", fmt.Sprintf("after the removal coin %v of surviving wallet %s is no longer flagged as spent by the pending transaction %s, which is still pending", in.PreviousOutPoint, k.ID[:8], ptx.TxHash().String()[:10]))
								return
							}
						}
					}
					t.Count("survivor_pending_flags_checked_after_removal", 1)
				}
			}
		}
	}
	// the removed wallet cannot be selected
	if _, err := wd.W.W.UseWallet(victim.ID); err == nil {
		fail("removed-wallet-selectable", "UseWallet succeeds for the removed wallet")
		return
	}
	// survivors can still build and sign
	v, _ = sim.ViewOfChain(wd.N.BestChain())
	for _, k := range survivors {
		if _, err := wd.W.W.UseWallet(k.ID); err != nil {
			fail("survivor-not-selectable", err.Error())
			return
		}
		var spendable int64
		for _, o := range v.SortedOuts() {
			if !o.Spent && o.HasHash && k.Owned[o.Hash] && o.Class == sim.ClassStd && v.Mature(o) {
				spendable += o.Value
			}
		}
		if spendable < 3000000 {
			continue
		}
		a, _ := massutil.NewAmountFromInt(spendable / 3)
		t.Eval(1)
		hexTx, _, err := wd.W.W.AutoCreateRawTransaction(map[string]massutil.Amount{sim.StdAddr(wd.StrangerPub()): a}, 0, massutil.ZeroAmount(), "", "", nil)
		if err != nil {
			// coins may be spent by the pending transactions delivered above
			wd.Logf("survivor %s cannot build: %v", k.ID[:8], err)
			continue
		}
		tx, derr := decodeTxHex(hexTx)
		if derr != nil {
			fail("created-tx-undecodable", derr.Error())
			return
		}
		var prevs []*sim.Out
		okIns := true
		for _, in := range tx.TxIn {
			o := v.Outs[in.PreviousOutPoint]
			if o == nil || !k.Owned[o.Hash] {
				fail("survivor-builds-with-foreign-coin", fmt.Sprintf("survivor %s selected %v which is not its own", k.ID[:8], in.PreviousOutPoint))
				okIns = false
				break
			}
			prevs = append(prevs, o)
		}
		if !okIns {
			return
		}
		signed, err := wd.W.W.SignRawTx([]byte(k.Pass), "ALL", tx)
		if err != nil {
			fail("survivor-cannot-sign", fmt.Sprintf("survivor %s: SignRawTx: %v", k.ID[:8], err))
			return
		}
		var stx wire.MsgTx
		if stx.SetBytes(signed, wire.Packet) == nil {
			for i := range stx.TxIn {
				if err := engineCheck(&stx, i, prevs[i]); err != nil {
					fail("survivor-signature-invalid", fmt.Sprintf("survivor %s input %d: %v", k.ID[:8], i, err))
					return
				}
			}
		}
		t.Count("survivor_build_and_sign", 1)
	}
	// residue scan on the closed database
	if !wd.W.Stop(60 * time.Second) {
		t.Inconclusive("Stop did not return (C20's subject)")
		stopped = true
		return
	}
	stopped = true
	surv := map[[32]byte]bool{}
	for _, k := range survivors {
		for h := range k.Owned {
			surv[h] = true
		}
	}
	t.Eval(1)
	allOuts := map[wire.OutPoint]*sim.Out{}
	for _, b := range wd.N.AllBlocks() {
		for _, tx := range b.Msg.Transactions {
			h := tx.TxHash()
			for i, o := range tx.TxOut {
				op := wire.OutPoint{Hash: h, Index: uint32(i)}
				allOuts[op] = sim.ReadOut(op, o, b.Height, false)
			}
		}
	}
	res, nkv, err := scanResidue(wd.W.Dir, victim, surv, v, allOuts)
	if err != nil {
		t.Fatalf("scan: %v", err)
	}
	if len(res) > 0 {
		var lines []string
		for i, r := range res {
			if i < 8 {
				lines = append(lines, r.what+" in "+r.key)
			}
		}
		fail("residue-after-removal", fmt.Sprintf("%d database entries still refer to the removed wallet: %s", len(res), strings.Join(lines, "; ")))
		return
	}
	// re-import of the same mnemonic
	w2, err := sim.OpenWallet(wd.N, wd.W.Dir, wd.W.Cfg)
	if err != nil {
		fail("reopen-failed-after-removal", err.Error())
		return
	}
	if err := w2.Start(); err != nil {
		fail("restart-failed-after-removal", err.Error())
		w2.CloseUnstarted()
		return
	}
	wd.W = w2
	stopped = false
	t.Eval(1)
	hint := uint32(len(victim.Hashes))
	sum, err := w2.W.ImportWalletWithMnemonic(&keystore.WalletParams{Mnemonic: victim.Mnemonic, PrivatePassphrase: []byte(victim.Pass), ExternalIndex: hint, AddressGapLimit: 20})
	if err != nil {
		fail("reimport-failed", fmt.Sprintf("importing the removed wallet's mnemonic again: %v", err))
		return
	}
	if sum.WalletID != victim.ID {
		fail("reimport-different-id", sum.WalletID)
		return
	}
	if !w2.WorkerIdle(120 * time.Second) {
		t.Inconclusive("re-import did not finish")
		return
	}
	wd.Keys = allKeys
	if !wd.Settle() {
		t.Inconclusive("handler not idle")
		return
	}
	if d := wd.CheckLedger(sim.CompareOpts{Histories: true}); len(d) > 0 {
		var lines []string
		for id, dd := range d {
			for _, x := range dd {
				lines = append(lines, id+": "+x)
			}
		}
		sort.Strings(lines)
		fail("reimported-wallet-differs-from-ledger", strings.Join(lines, " | "))
		return
	}
	// life goes on for the re-imported wallet: blocks that pay and spend it, reorganisations that
	// reach below the re-import, and (in a third of the cases) a second removal and re-import in
	// the same process; after every step all wallets == ledger and the follower keeps following
	if !big {
		afterLedger := func(what string) bool {
			if !wd.Settle() {
				if ok, sum, full := c20Structural(); ok {
					w := wd.Witness()
					w["goroutines"], w["dump"] = sum, full
					t.Violate("follower-stalled-after-reimport", what+": the follower does not consume the delivered block; structural deadlock", w)
				} else {
					t.Inconclusive("handler not idle " + what)
				}
				return false
			}
			t.Eval(1)
			if d := wd.CheckLedger(sim.CompareOpts{Histories: true}); len(d) > 0 {
				var lines []string
				for id, dd := range d {
					for _, x := range dd {
						lines = append(lines, id+": "+x)
					}
				}
				sort.Strings(lines)
				fail("ledger-mismatch-after-reimport", what+": "+strings.Join(lines, " | "))
				return false
			}
			return true
		}
		cycles := 1
		if t.R.Chance(35) {
			cycles = 2
		}
		for c := 0; c < cycles; c++ {
			for i := 0; i < t.R.Range(1, 3); i++ {
				b, err := wd.Extend(t.R.Range(1, 4))
				if err != nil {
					t.Fatalf("extend: %v", err)
				}
				wd.W.Deliver(b)
				if !afterLedger("a block after the re-import") {
					return
				}
			}
			if c == 0 && cycles == 2 {
				// second removal + re-import without a restart in between
				t.Eval(1)
				if err := wd.W.W.RemoveWallet(victim.ID, victim.Pass); err != nil {
					fail("second-removal-refused", err.Error())
					return
				}
				wd.Keys = survivors
				if !wd.W.WorkerIdle(120 * time.Second) {
					t.Inconclusive("second removal did not finish")
					return
				}
				sum, err := wd.W.W.ImportWalletWithMnemonic(&keystore.WalletParams{Mnemonic: victim.Mnemonic, PrivatePassphrase: []byte(victim.Pass), ExternalIndex: hint, AddressGapLimit: 20})
				if err != nil || sum.WalletID != victim.ID {
					fail("reimport-failed", fmt.Sprintf("second re-import in the same process: %v", err))
					return
				}
				if !wd.W.WorkerIdle(120 * time.Second) {
					t.Inconclusive("second re-import did not finish")
					return
				}
				wd.Keys = allKeys
				wd.Logf("(removed and re-imported %s again, same process)", victim.ID[:8])
				t.Count("second_removal_and_reimport_cycles", 1)
				if !afterLedger("the second re-import") {
					return
				}
			}
			if h := int(wd.N.Height()); h > 4 {
				d := t.R.Range(1, minInt(5, h-2))
				nb, _, err := wd.Fork(d, d+t.R.Range(0, 1), 2)
				if err != nil {
					t.Fatalf("fork: %v", err)
				}
				if nb != nil {
					wd.W.Deliver(nb)
					wd.Logf("(reorg after the re-import)")
					t.Count("reorgs_after_reimport", 1)
					if !afterLedger("a reorganisation after the re-import") {
						return
					}
					if h2, err := wd.W.W.SyncedTo(); err != nil || h2 != wd.N.Height() {
						b, err := wd.Extend(0)
						if err != nil {
							t.Fatalf("extend: %v", err)
						}
						wd.W.Deliver(b)
						wd.Settle()
						if h3, _ := wd.W.W.SyncedTo(); h3 != wd.N.Height() {
							fail("wallet-stops-following-after-reimport", fmt.Sprintf("SyncedTo %d, node at %d after a reorganisation that follows the re-import", h3, wd.N.Height()))
							return
						}
					}
				}
			}
		}
	}
	t.Count("removal_rounds", rounds)
	t.Count("restarts_during_removal", restarted)
	t.Count("kv_scanned", nkv)
	t.Nontrivial(fmt.Sprintf("w%d|big%v|rounds%d|restart%d|pend%d|h%d", cfg.Wallets, big, bucket(rounds), restarted, pend, wd.N.Height()) + "|" + strings.Join(wd.Disp, ","))
	ops := wd.Ops
	if len(ops) > 14 {
		ops = append(ops[:5], ops[len(ops)-9:]...)
	}
	t.Sample(map[string]interface{}{"config": cfg, "big": big, "removal_rounds": rounds, "ops": ops})
}

func init() {
	plans := map[string]struct{ small, big int }{
		"quick":    {small: 60, big: 4},
		"thorough": {small: 800, big: 60},
	}
	core.Register(&core.Property{
		ID:    "C08",
		Level: "exploration",
		Rule: "case = 2-4 wallets with a shared history (transactions paying/spending several wallets, staking/binding records, forks) and pending transactions; one wallet is removed at the end of the history while blocks keep arriving; 'big' cases give the removed wallet > 20 000 credits so that the second removal phase needs several rounds, half of them with a restart between rounds. " +
			"Oracles: the wallet disappears from Wallets() and cannot be selected; survivors == reference ledger and can still build (own coins only) and sign (script engine) a transaction; the closed database is iterated raw and must contain no key or value with the removed wallet's id, address strings (both encodings) or script hashes, " +
			"except pending transaction bodies that also pay or spend a survivor; the mnemonic can be imported again and ends == ledger. distinct_nontrivial = distinct (wallet count, big, rounds, restarts, pending count, height bucket)",
		Assumptions: []string{"allowed residue defined up front: serialized pending transactions (bucket t/m) that a surviving wallet still needs", "wrong-passphrase and while-importing refusals are checked by C05 and C07"},
		CaseTimeout: 600 * time.Second,
		Cases:       func(tier string, seed int64) int { p := plans[tier]; return p.small + p.big },
		Run: func(t *core.T) {
			p := plans[t.Tier]
			c08Case(t, t.Index >= p.small)
		},
	})
}
