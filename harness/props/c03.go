package props

import (
	"bytes"
	"crypto/sha256"
	"fmt"
	"sort"
	"strings"

	"github.com/btcsuite/btcd/btcec"
	"github.com/massnetorg/mass-core/massutil"
	"github.com/massnetorg/mass-core/txscript"
	"github.com/massnetorg/mass-core/wire"
	"massnet.org/mass-wallet/masswallet"
	"massnet.org/mass-wallet/masswallet/keystore"

	"verifharness/core"
	"verifharness/sim"
)

// C03 — signing yields valid witnesses, alters nothing else, needs the right passphrase.
// Monitor per sign call: (1) witness-stripped bytes identical, (2) independent script-engine run per
// input with the flags consensus uses, (3) witness structure: [DER sig || hash type, redeem script],
// sha256(redeem) = script hash of the spent output, redeem = 1-of-1 multisig of the address key, hash
// type byte = requested flag, signature parses; (4) wrong passphrase ⇒ passphrase error, no bytes,
// no witness written.

var c03Flags = map[string]txscript.SigHashType{
	"ALL": txscript.SigHashAll, "NONE": txscript.SigHashNone, "SINGLE": txscript.SigHashSingle,
	"ALL|ANYONECANPAY": txscript.SigHashAll | txscript.SigHashAnyOneCanPay, "NONE|ANYONECANPAY": txscript.SigHashNone | txscript.SigHashAnyOneCanPay,
	"SINGLE|ANYONECANPAY": txscript.SigHashSingle | txscript.SigHashAnyOneCanPay,
}

func stripWitness(tx *wire.MsgTx) []byte {
	cp := wire.NewMsgTx()
	cp.Version, cp.LockTime = tx.Version, tx.LockTime
	cp.SetPayload(append([]byte{}, tx.Payload...))
	for _, in := range tx.TxIn {
		cp.AddTxIn(&wire.TxIn{PreviousOutPoint: in.PreviousOutPoint, Sequence: in.Sequence})
	}
	for _, o := range tx.TxOut {
		cp.AddTxOut(wire.NewTxOut(o.Value, append([]byte{}, o.PkScript...)))
	}
	b, _ := cp.Bytes(wire.Packet)
	return b
}

func cloneTx(tx *wire.MsgTx) *wire.MsgTx {
	cp := wire.NewMsgTx()
	cp.Version, cp.LockTime = tx.Version, tx.LockTime
	cp.SetPayload(append([]byte{}, tx.Payload...))
	for _, in := range tx.TxIn {
		var wit wire.TxWitness
		for _, w := range in.Witness {
			wit = append(wit, append([]byte{}, w...))
		}
		cp.AddTxIn(&wire.TxIn{PreviousOutPoint: in.PreviousOutPoint, Sequence: in.Sequence, Witness: wit})
	}
	for _, o := range tx.TxOut {
		cp.AddTxOut(wire.NewTxOut(o.Value, append([]byte{}, o.PkScript...)))
	}
	return cp
}

func wrongPassphrases(r *core.Rand, right string, others []string) []string {
	flip := []byte(right)
	for i := range flip {
		if flip[i] >= 'a' && flip[i] <= 'z' {
			flip[i] -= 32
			break
		} else if flip[i] >= 'A' && flip[i] <= 'Z' {
			flip[i] += 32
			break
		}
	}
	c := []string{string(flip), right[:len(right)-1], right + "1", right + " ", " " + right, "", sim.PubPass, strings.Repeat("a", 41), right + "\x00", "пароль-密码", string(r.Bytes(12)), strings.ToUpper(right) + "x"}
	c = append(c, others...)
	var out []string
	for _, x := range c {
		if x != right {
			out = append(out, x)
		}
	}
	return out
}

// c03CheckSigned verifies a successful sign result.
func c03CheckSigned(t *core.T, wd *sim.World, k *sim.WalletKeys, orig *wire.MsgTx, signed []byte, flag string, prevs []*sim.Out, fail func(sig, msg string)) {
	var stx wire.MsgTx
	if err := stx.SetBytes(signed, wire.Packet); err != nil {
		fail("signed-bytes-undecodable", err.Error())
		return
	}
	if !bytes.Equal(stripWitness(&stx), stripWitness(orig)) {
		fail("non-witness-fields-altered", "the signed transaction differs from the request in a field other than the witnesses")
		return
	}
	ht := c03Flags[flag]
	for i, in := range stx.TxIn {
		p := prevs[i]
		if len(in.Witness) != 2 {
			fail("witness-malformed", fmt.Sprintf("input %d has %d witness items", i, len(in.Witness)))
			continue
		}
		// witness = [script pushing (DER signature || hash type), redeem script]
		sigScript, redeem := in.Witness[0], in.Witness[1]
		if len(sigScript) < 10 || int(sigScript[0]) != len(sigScript)-1 || sigScript[0] > 0x4b {
			fail("witness-malformed", fmt.Sprintf("input %d: first witness item is not a single push of a signature", i))
			continue
		}
		sig := sigScript[1:]
		h := sha256.Sum256(redeem)
		if h != p.Hash {
			fail("witness-script-hash-mismatch", fmt.Sprintf("input %d: sha256(redeem script) is not the script hash of the spent output", i))
		}
		if len(redeem) != 37 || redeem[0] != 0x51 || redeem[1] != 0x21 || redeem[35] != 0x51 || redeem[36] != 0xae {
			fail("witness-malformed", fmt.Sprintf("input %d: redeem script is not a 1-of-1 multisig", i))
			continue
		}
		if len(sig) < 9 {
			fail("witness-malformed", fmt.Sprintf("input %d: signature too short", i))
			continue
		}
		if txscript.SigHashType(sig[len(sig)-1]) != ht {
			fail("wrong-sighash-type", fmt.Sprintf("input %d signed with hash type %#x, requested %s (%#x)", i, sig[len(sig)-1], flag, byte(ht)))
		}
		if _, err := btcec.ParseDERSignature(sig[:len(sig)-1], btcec.S256()); err != nil {
			fail("witness-malformed", fmt.Sprintf("input %d: signature is not DER: %v", i, err))
		}
		if _, err := btcec.ParsePubKey(redeem[2:35], btcec.S256()); err != nil {
			fail("witness-malformed", fmt.Sprintf("input %d: key in the redeem script does not parse: %v", i, err))
		}
		if err := engineCheck(&stx, i, p); err != nil {
			fail("input-fails-script-engine", fmt.Sprintf("input %d (class %d, origin height %d, flag %s) does not pass the consensus script engine: %v", i, p.Class, p.Height, flag, err))
		}
		t.Eval(1)
	}
}

func c03Case(t *core.T, calls int) {
	cfg := worldCfg{Maturity: 2, Wallets: t.R.Range(1, 2), Staking: true, BindingOld: true, BindingNew: t.R.Chance(30), Gap: 20}
	if cfg.BindingNew {
		cfg.Warm = uint64(t.R.Range(6, 12))
	}
	wd := newWorld(t, cfg)
	defer closeWorld(t, wd)
	for _, k := range wd.Keys {
		for i := 0; i < t.R.Range(1, 4); i++ {
			wd.IssueAddress(k, 0)
		}
	}
	wd.StrangerPub()
	for i := 0; i < t.R.Range(8, 16); i++ {
		b, err := wd.Extend(t.R.Range(1, 4))
		if err != nil {
			t.Fatalf("extend: %v", err)
		}
		wd.W.Deliver(b)
	}
	if !wd.Settle() {
		t.Inconclusive("handler not idle")
		return
	}
	if d := wd.CheckLedger(sim.CompareOpts{}); len(d) > 0 {
		reportLedgerDiffs(t, wd, d, "before signing")
		return
	}
	var otherPass []string
	for _, k := range wd.Keys {
		otherPass = append(otherPass, k.Pass)
	}
	pendingOuts := map[wire.OutPoint]*sim.Out{}
	for c := 0; c < calls && !t.Failed(); c++ {
		k := wd.Keys[t.R.Intn(len(wd.Keys))]
		if _, err := wd.W.W.UseWallet(k.ID); err != nil {
			t.Fatalf("use wallet: %v", err)
		}
		v, err := sim.ViewOfChain(wd.N.BestChain())
		if err != nil {
			t.Fatalf("view: %v", err)
		}
		// sometimes create a pending parent paying this wallet
		if t.R.Chance(20) {
			for _, o := range v.SortedOuts() {
				if !o.Spent && o.HasHash && !k.Owned[o.Hash] && o.Class == sim.ClassStd && v.Mature(o) && o.Value > 100000 {
					used := false
					for _, po := range pendingOuts {
						_ = po
					}
					if used {
						continue
					}
					h := k.Hashes[t.R.Intn(len(k.Hashes))]
					ptx := sim.Spend([]wire.OutPoint{o.OP}, nil, []*wire.TxOut{wire.NewTxOut(o.Value-5000, sim.P2WSH(h))}, t.R.Uint64()|1)
					wd.W.DeliverTx(ptx)
					wd.Settle()
					op := wire.OutPoint{Hash: ptx.TxHash(), Index: 0}
					po := sim.ReadOut(op, ptx.TxOut[0], wd.N.Height()+1, false)
					pendingOuts[op] = po
					wd.Logf("pending parent %s pays %d to the wallet", ptx.TxHash().String()[:10], po.Value)
					break
				}
			}
		}
		var own []*sim.Out
		for _, o := range v.SortedOuts() {
			if !o.Spent && o.HasHash && k.Owned[o.Hash] && o.Value > 0 {
				own = append(own, o)
			}
		}
		for _, po := range pendingOuts {
			if k.Owned[po.Hash] {
				own = append(own, po)
			}
		}
		sort.Slice(own, func(i, j int) bool {
			if own[i].OP.Hash != own[j].OP.Hash {
				return own[i].OP.Hash.String() < own[j].OP.Hash.String()
			}
			return own[i].OP.Index < own[j].OP.Index
		})
		if len(own) == 0 {
			continue
		}
		nIn := t.R.Range(1, minInt(12, len(own)))
		if t.R.Chance(50) {
			nIn = t.R.Range(1, minInt(3, len(own)))
		}
		perm := t.R.Bytes(len(own))
		idx := make([]int, len(own))
		for i := range idx {
			idx[i] = i
		}
		sort.Slice(idx, func(a, b int) bool { return perm[idx[a]] < perm[idx[b]] })
		var prevs []*sim.Out
		tx := wire.NewMsgTx()
		var total int64
		classes := map[int]bool{}
		addrs := map[[32]byte]bool{}
		pendingParent := false
		for _, i := range idx[:nIn] {
			o := own[i]
			seq := uint64(wire.MaxTxInSequenceNum)
			if o.Class == sim.ClassStaking {
				seq = o.Frozen + 1
			}
			if o.Class == sim.ClassBinding && o.Maturity() != 0 {
				seq = o.Maturity()
			}
			tx.AddTxIn(&wire.TxIn{PreviousOutPoint: o.OP, Sequence: seq})
			prevs = append(prevs, o)
			total += o.Value
			classes[o.Class] = true
			addrs[o.Hash] = true
			if _, p := pendingOuts[o.OP]; p {
				pendingParent = true
			}
		}
		flagNames := []string{"ALL", "NONE", "SINGLE", "ALL|ANYONECANPAY", "NONE|ANYONECANPAY", "SINGLE|ANYONECANPAY"}
		flag := flagNames[t.R.Intn(6)]
		nOut := t.R.Range(1, 4)
		if strings.HasPrefix(flag, "SINGLE") && nOut < nIn {
			nOut = nIn
		}
		for i := 0; i < nOut; i++ {
			tx.AddTxOut(wire.NewTxOut(total/int64(nOut+1)+1, sim.P2WSH(wd.StrangerPub())))
		}
		if t.R.Chance(30) {
			tx.LockTime = uint64(t.R.Range(1, 100000))
		}
		if t.R.Chance(30) {
			tx.SetPayload(t.R.Bytes(t.R.Range(1, 120)))
		}
		// some of the transactions are built by the wallet itself from the same inputs and lock time
		// (its own sequences, outputs and change); when the builder declines, the hand-made one is used
		walletBuilt := false
		if t.R.Chance(30) {
			var ins []*masswallet.TxIn
			for _, in := range tx.TxIn {
				ins = append(ins, &masswallet.TxIn{TxId: in.PreviousOutPoint.Hash.String(), Vout: in.PreviousOutPoint.Index})
			}
			amt, _ := massutil.NewAmountFromInt(total/2 + 1)
			raw, _, cerr := wd.W.W.CreateRawTransaction(ins, map[string]massutil.Amount{sim.StdAddr(wd.StrangerPub()): amt}, tx.LockTime, "", nil)
			if cerr == nil {
				if wtx, derr := decodeTxHex(raw); derr == nil && len(wtx.TxIn) == len(tx.TxIn) {
					same := true
					for i := range wtx.TxIn {
						if wtx.TxIn[i].PreviousOutPoint != tx.TxIn[i].PreviousOutPoint {
							same = false
						}
					}
					if same {
						wd.W.W.ClearUsedUTXOMark(wtx)
						tx = wtx
						walletBuilt = true
						nOut = len(tx.TxOut)
						if strings.HasPrefix(flag, "SINGLE") && nOut < nIn {
							flag = "ALL"
						}
						t.Count("transactions_built_by_the_wallet", 1)
					}
				}
			} else {
				t.Count("wallet_builder_declined", 1)
			}
		}
		desc := fmt.Sprintf("sign wallet %s inputs=%d classes=%v addrs=%d pendingParent=%v outputs=%d flag=%s lock=%d payload=%d walletBuilt=%v", k.ID[:8], nIn, classes, len(addrs), pendingParent, nOut, flag, tx.LockTime, len(tx.Payload), walletBuilt)
		wd.Logf("%s", desc)
		fail := func(sig, msg string) {
			w := wd.Witness()
			w["call"] = desc
			t.Violate(sig, msg, w)
		}
		// interleaving of wrong and right attempts
		wrongs := wrongPassphrases(t.R, k.Pass, otherPass)
		attempts := t.R.Range(1, 4)
		if t.R.Chance(5) {
			attempts = 50
		}
		// optionally unlock first through SignHash
		if t.R.Chance(25) {
			if list, err := wd.W.W.GetAllAddressesWithPubkey(); err == nil {
				for _, a := range list {
					if a.PubKey != nil {
						h := sha256.Sum256([]byte("c03"))
						if sigv, err := wd.W.W.SignHash(a.PubKey, h[:], []byte(k.Pass)); err != nil {
							fail("signhash-refused-right-passphrase", err.Error())
						} else if !sigv.Verify(h[:], a.PubKey) {
							fail("signhash-invalid-signature", "SignHash signature does not verify under the address key")
						}
						wd.Logf("(SignHash with the right passphrase first)")
						break
					}
				}
			}
		}
		for a := 0; a < attempts && !t.Failed(); a++ {
			if t.R.Bool() {
				wp := wrongs[t.R.Intn(len(wrongs))]
				cp := cloneTx(tx)
				t.Eval(1)
				out, err := wd.W.W.SignRawTx([]byte(wp), flag, cp)
				if err == nil || out != nil {
					fail("wrong-passphrase-accepted", fmt.Sprintf("SignRawTx with passphrase %q (right one differs) returned %d bytes, err=%v", wp, len(out), err))
					continue
				}
				if err != keystore.ErrInvalidPassphrase && err != keystore.ErrIllegalPassphrase {
					fail("wrong-passphrase-other-error", fmt.Sprintf("SignRawTx with a wrong passphrase failed with %q, not a passphrase error", err))
				}
				for i, in := range cp.TxIn {
					if len(in.Witness) != 0 {
						fail("wrong-passphrase-leaves-signature", fmt.Sprintf("after a refused attempt input %d of the caller's transaction carries a witness", i))
					}
				}
				t.Count("wrong_attempts", 1)
			} else {
				cp := cloneTx(tx)
				t.Eval(1)
				out, err := wd.W.W.SignRawTx([]byte(k.Pass), flag, cp)
				if err != nil {
					fail("right-passphrase-refused", fmt.Sprintf("SignRawTx with the right passphrase failed: %v", err))
					continue
				}
				c03CheckSigned(t, wd, k, tx, out, flag, prevs, fail)
				t.Count("signed_ok", 1)
				// the signed result handed back to the signing call (a client that signs twice, or edits a
				// signed draft): a transaction that already carries witnesses is a transaction like any other
				if signedTx, derr := decodeTxBytes(out); derr == nil && !t.Failed() && t.R.Chance(60) {
					// (A) any other passphrase is still refused and returns nothing
					wp := wrongs[t.R.Intn(len(wrongs))]
					t.Eval(1)
					if o2, err := wd.W.W.SignRawTx([]byte(wp), flag, cloneTx(signedTx)); err == nil || o2 != nil {
						fail("wrong-passphrase-accepted:presigned", fmt.Sprintf("SignRawTx of an already signed transaction with passphrase %q (right one differs) returned %d bytes, err=%v", wp, len(o2), err))
					} else if err != keystore.ErrInvalidPassphrase && err != keystore.ErrIllegalPassphrase {
						fail("wrong-passphrase-other-error", fmt.Sprintf("SignRawTx of an already signed transaction with a wrong passphrase failed with %q, not a passphrase error", err))
					}
					// (B) signing it again with another flag gives valid witnesses of THAT flag
					flag2 := flag
					if nIn <= nOut {
						flag2 = []string{"ALL", "NONE", "SINGLE", "ALL|ANYONECANPAY", "NONE|ANYONECANPAY", "SINGLE|ANYONECANPAY"}[t.R.Intn(6)]
					} else {
						flag2 = []string{"ALL", "NONE", "ALL|ANYONECANPAY", "NONE|ANYONECANPAY"}[t.R.Intn(4)]
					}
					t.Eval(1)
					if o3, err := wd.W.W.SignRawTx([]byte(k.Pass), flag2, cloneTx(signedTx)); err != nil {
						fail("right-passphrase-refused:presigned", fmt.Sprintf("SignRawTx(%s) of an already signed transaction with the right passphrase failed: %v", flag2, err))
					} else {
						c03CheckSigned(t, wd, k, signedTx, o3, flag2, prevs, fail)
					}
					// (C) a signed draft whose output was edited: the stale witnesses must be replaced
					if flag == "ALL" && len(signedTx.TxOut) > 0 && signedTx.TxOut[0].Value > 1 && !t.Failed() {
						edited := cloneTx(signedTx)
						edited.TxOut[0].Value--
						t.Eval(1)
						if o4, err := wd.W.W.SignRawTx([]byte(k.Pass), flag, cloneTx(edited)); err != nil {
							fail("right-passphrase-refused:stale-witness", fmt.Sprintf("SignRawTx of a signed transaction whose output was edited afterwards failed: %v", err))
						} else {
							c03CheckSigned(t, wd, k, edited, o4, flag, prevs, fail)
						}
					}
					t.Count("presigned_transactions_signed_again", 1)
				}
				t.Count("inputs_verified", nIn)
				if nIn >= 2 && len(addrs) >= 2 || flag != "ALL" || classes[sim.ClassStaking] || classes[sim.ClassBinding] {
					var cl []string
					for c := range classes {
						cl = append(cl, fmt.Sprint(c))
					}
					sort.Strings(cl)
					t.Nontrivial(fmt.Sprintf("%s|in%d|addr%d|cls%s|pend%v|lock%v|payload%v", flag, bucket(nIn), bucket(len(addrs)), strings.Join(cl, ""), pendingParent, tx.LockTime != 0, len(tx.Payload) > 0))
				}
			}
		}
		if c == 0 {
			t.Sample(map[string]interface{}{"config": cfg, "first_call": desc})
		}
	}
}

func init() {
	plans := map[string]struct{ cases, calls int }{
		"quick":    {cases: 60, calls: 8},
		"thorough": {cases: 1500, calls: 12},
	}
	core.Register(&core.Property{
		ID:    "C03",
		Level: "exploration",
		Rule: "case = a wallet (random entropy size) with coins of all classes from a history (standard, staking, old and new binding, several addresses and key indexes) plus pending parents; each sign call draws 1-12 inputs, 1-4 outputs, one of the six sighash flags (SINGLE only with #inputs ≤ #outputs), lock time, payload, " +
			"and an interleaving of right and wrong passphrases (near misses, other wallet's, public passphrase, empty, over-long, binary; optionally after a successful SignHash; 5%: 50 attempts). Every successful result is checked for byte-identical non-witness fields, witness structure, hash-type byte and an independent script-engine run per input; every wrong attempt must fail with a passphrase error, return nothing and leave no witness. " +
			"distinct_nontrivial = distinct (flag, input bucket, address bucket, classes, pending parent, lock, payload) of successful calls with ≥2 inputs from ≥2 addresses, a non-ALL flag or a locked-class input",
		Assumptions: []string{"mass-core script engine and btcec are the reference for signature validity", "SINGLE flags without a corresponding output are not explored"},
		Cases:       func(tier string, seed int64) int { return plans[tier].cases },
		Run:         func(t *core.T) { c03Case(t, plans[t.Tier].calls) },
	})
}

func decodeTxBytes(b []byte) (*wire.MsgTx, error) {
	tx := wire.NewMsgTx()
	if err := tx.SetBytes(b, wire.Packet); err != nil {
		return nil, err
	}
	return tx, nil
}
