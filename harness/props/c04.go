package props

import (
	"crypto/sha256"
	"fmt"
	"math"
	"path/filepath"
	"sort"
	"strings"
	"time"

	"github.com/btcsuite/btcd/btcec"
	"github.com/massnetorg/mass-core/consensus"
	"massnet.org/mass-wallet/masswallet/keystore"

	"verifharness/core"
	"verifharness/sim"
)

// C04 — wallet id and addresses are a function of the mnemonic; keys match addresses.
// Monitor: metamorphic equality across instances (create / export→import-keystore /
// GetMnemonic→import-mnemonic / restart / different public passphrases) + address↔pubkey↔signature
// consistency + independent BIP-39/BIP-32/BIP-44-path derivation of id and every address.

func randPass(r *core.Rand) string {
	const alpha = "abcdefghijklmnopqrstuvwxyzABCDEFGHIJKLMNOPQRSTUVWXYZ0123456789@#$%^&"
	n := r.Range(6, 40)
	if r.Chance(70) {
		n = r.Range(8, 16)
	}
	b := make([]byte, n)
	for i := range b {
		b[i] = alpha[r.Intn(len(alpha))]
	}
	return string(b)
}

type c04Inst struct {
	w    *sim.Wallet
	dir  string
	pub  string
	name string
}

func c04Open(t *core.T, n *sim.Node, dir, pub, name string) *c04Inst {
	w, err := sim.OpenWalletPub(n, dir, sim.NewConfig(20), pub)
	if err != nil {
		t.Fatalf("open %s: %v", name, err)
	}
	if err := w.Start(); err != nil {
		t.Fatalf("start %s: %v", name, err)
	}
	return &c04Inst{w: w, dir: dir, pub: pub, name: name}
}

func (i *c04Inst) stop(t *core.T) bool {
	if !i.w.Stop(30 * time.Second) {
		t.Inconclusive("Stop did not return (C20's subject)")
		return false
	}
	return true
}

// hashesOf returns the script hashes of every address the current wallet lists.
func c04Hashes(w *sim.Wallet, id string) (map[[32]byte]bool, error) {
	if _, err := w.W.UseWallet(id); err != nil {
		return nil, err
	}
	list, err := w.W.GetAddresses(math.MaxUint16)
	if err != nil {
		return nil, err
	}
	m := map[[32]byte]bool{}
	for _, a := range list {
		if h, err := sim.HashOfAddress(a.Address); err == nil {
			m[h] = true
		}
	}
	return m, nil
}

func pubKeyHash(pub *btcec.PublicKey) [32]byte {
	return sha256.Sum256(redeemScript1of1(pub.SerializeCompressed()))
}

func c04Case(t *core.T) {
	sim.InitProcess(filepath.Join(filepath.Dir(t.Dir), "log"))
	consensus.CoinbaseMaturity = defaultConsensus.cm
	n, err := sim.NewNode(filepath.Join(t.Dir, "node"))
	if err != nil {
		t.Fatalf("node: %v", err)
	}
	defer n.Close()
	var ops []string
	logf := func(f string, a ...interface{}) { ops = append(ops, fmt.Sprintf(f, a...)) }
	fail := func(sig, msg string) {
		t.Violate(sig, msg, map[string]interface{}{"ops": ops})
	}
	pass := randPass(t.R)
	bits := []int{128, 160, 192, 224, 256}[t.R.Intn(5)]
	A := c04Open(t, n, filepath.Join(t.Dir, "A"), randPass(t.R), "A")
	cur := A
	defer func() {
		if cur != nil {
			cur.stop(t)
		}
	}()
	id, mnemonic, _, err := A.w.W.CreateWallet(pass, "c04", bits)
	if err != nil {
		t.Fatalf("create: %v", err)
	}
	logf("A: CreateWallet(%d bits) -> %s", bits, id)
	ref, err := refWalletFrom(mnemonic, pass)
	if err != nil {
		t.Fatalf("reference derivation: %v", err)
	}
	useRef := true
	if ref.ID() != id {
		if ref.ShortRisk {
			useRef = false
			t.Count("wallets_in_c14_known_finding_class", 1)
		} else {
			fail("wallet-id-not-derived-from-mnemonic", fmt.Sprintf("wallet id %s; independent BIP-39/BIP-32 derivation m/44'/coin'/1' of the mnemonic gives %s", id, ref.ID()))
			return
		}
	}
	if _, err := A.w.W.UseWallet(id); err != nil {
		t.Fatalf("use: %v", err)
	}
	// issue addresses, some after an unlock (private derivation path)
	var issued []string
	var hashes [][32]byte
	count := map[string]int{} // instance dir -> number of indexes it knows
	issue := func(inst *c04Inst, class uint16) bool {
		idx := uint32(count[inst.dir])
		t.Eval(1)
		addr, err := inst.w.W.NewAddress(class)
		if err != nil {
			fail("newaddress-refused", fmt.Sprintf("%s: NewAddress at index %d: %v", inst.name, idx, err))
			return false
		}
		h, _ := sim.HashOfAddress(addr)
		if useRef {
			std, stk, rh, ok := ref.Address(idx)
			want := std
			if class == 1 {
				want = stk
			}
			if ok && (addr != want || h != rh) {
				fail("address-not-function-of-mnemonic", fmt.Sprintf("%s: address at index %d is %s; independent derivation m/44'/coin'/1'/0/%d gives %s", inst.name, idx, addr, idx, want))
				return false
			}
		}
		if int(idx) < len(hashes) {
			if hashes[idx] != h {
				fail("address-differs-across-instances", fmt.Sprintf("%s: NewAddress at index %d gives %s; another instance of the same wallet issued %s there", inst.name, idx, addr, issued[idx]))
				return false
			}
		} else {
			issued = append(issued, addr)
			hashes = append(hashes, h)
		}
		count[inst.dir]++
		logf("%s: NewAddress(class %d) index %d -> %s", inst.name, class, idx, addr)
		return true
	}
	unlock := func(inst *c04Inst) {
		list, err := inst.w.W.GetAllAddressesWithPubkey()
		if err != nil {
			return
		}
		for _, a := range list {
			if a.PubKey != nil {
				h := sha256.Sum256([]byte("unlock"))
				inst.w.W.SignHash(a.PubKey, h[:], []byte(pass))
				logf("%s: SignHash (unlock; later addresses are derived from private material)", inst.name)
				return
			}
		}
	}
	nA := t.R.Range(1, 14) // the gap limit (20) caps issuing on an empty chain
	for i := 0; i < nA; i++ {
		if i > 0 && t.R.Chance(15) {
			unlock(A)
		}
		class := uint16(0)
		if t.R.Chance(25) {
			class = 1
		}
		if !issue(A, class) {
			return
		}
	}
	// keys ↔ addresses
	checkKeys := func(inst *c04Inst) bool {
		list, err := inst.w.W.GetAllAddressesWithPubkey()
		if err != nil {
			fail("listing-failed", err.Error())
			return false
		}
		seen := 0
		for _, a := range list {
			if a.PubKey == nil {
				continue
			}
			seen++
			t.Eval(1)
			h, herr := sim.HashOfAddress(a.Address)
			if herr != nil {
				continue
			}
			if pubKeyHash(a.PubKey) != h {
				fail("address-does-not-commit-to-pubkey", fmt.Sprintf("%s: address %s is not the witness script hash of the listed public key", inst.name, a.Address))
				return false
			}
			msg := sha256.Sum256([]byte(a.Address))
			sig, err := inst.w.W.SignHash(a.PubKey, msg[:], []byte(pass))
			if err != nil {
				fail("signhash-refused", fmt.Sprintf("%s: SignHash for %s: %v", inst.name, a.Address, err))
				return false
			}
			if !sig.Verify(msg[:], a.PubKey) {
				fail("private-key-does-not-match-address", fmt.Sprintf("%s: the key derived for signing does not verify under the public key committed to by %s", inst.name, a.Address))
				return false
			}
		}
		t.Count("address_keys_verified", seen)
		return true
	}
	if !checkKeys(A) {
		return
	}
	exported, err := A.w.W.ExportWallet(id, pass)
	if err != nil {
		fail("export-refused", err.Error())
		return
	}
	exportedCount := count[A.dir]
	if m2, _, err := A.w.W.GetMnemonic(id, pass); err != nil || m2 != mnemonic {
		fail("mnemonic-not-stable", fmt.Sprintf("GetMnemonic returns %q,%v; CreateWallet returned %q", m2, err, mnemonic))
		return
	}
	// routes into other instances
	internalWanted := uint32(0)
	internalKnown := map[string]bool{}
	routes := t.R.Range(1, 4)
	var shape []string
	for r := 0; r < routes && !t.Failed(); r++ {
		if !cur.stop(t) {
			cur = nil
			return
		}
		cur = nil
		route := t.R.Intn(3)
		name := fmt.Sprintf("I%d", r)
		switch route {
		case 0: // restart of A
			A = c04Open(t, n, A.dir, A.pub, "A")
			cur = A
			logf("A: restart")
			shape = append(shape, "restart")
		case 1: // keystore import
			inst := c04Open(t, n, filepath.Join(t.Dir, name), randPass(t.R), name)
			cur = inst
			t.Eval(1)
			sum, err := inst.w.W.ImportWallet(exported, pass)
			logf("%s: ImportWallet(keystore) -> %v", name, err)
			if err != nil {
				fail("import-keystore-failed", err.Error())
				return
			}
			if sum.WalletID != id {
				fail("id-differs-across-instances", fmt.Sprintf("keystore import gives id %s, original %s", sum.WalletID, id))
				return
			}
			shape = append(shape, "keystore")
		case 2: // mnemonic import with a hint
			inst := c04Open(t, n, filepath.Join(t.Dir, name), randPass(t.R), name)
			cur = inst
			hint := uint32(len(issued))
			if t.R.Chance(30) {
				hint = uint32(t.R.Intn(len(issued) + 1))
			}
			// in a third of the restores the client also asks for addresses of the internal (change) branch
			intHint := uint32(0)
			if t.R.Chance(35) {
				intHint = uint32(t.R.Range(1, 4))
			}
			t.Eval(1)
			sum, err := inst.w.W.ImportWalletWithMnemonic(&keystore.WalletParams{Mnemonic: mnemonic, PrivatePassphrase: []byte(pass), ExternalIndex: hint, InternalIndex: intHint, AddressGapLimit: 20})
			logf("%s: ImportWalletWithMnemonic(hint %d, internal %d) -> %v", name, hint, intHint, err)
			internalWanted = intHint
			if err != nil {
				fail("import-mnemonic-failed", err.Error())
				return
			}
			if sum.WalletID != id {
				fail("id-differs-across-instances", fmt.Sprintf("mnemonic import gives id %s, original %s", sum.WalletID, id))
				return
			}
			shape = append(shape, fmt.Sprintf("mnemonic%d", hint))
			if hint < uint32(len(issued)) {
				// only the first max(hint,1) addresses are known; compare those
				defer func() {}()
			}
		}
		if !cur.w.WorkerIdle(60 * time.Second) {
			t.Inconclusive("import did not finish")
			return
		}
		got, err := c04Hashes(cur.w, id)
		if err != nil {
			fail("usewallet-failed", fmt.Sprintf("%s: %v", cur.name, err))
			return
		}
		if route == 2 && internalWanted > 0 && useRef {
			// the internal-branch addresses the restore created: independent derivation m/44'/coin'/1'/1/i
			for i := uint32(0); i < internalWanted; i++ {
				t.Eval(1)
				k, ok := ref.InternalKey(i)
				if !ok {
					continue
				}
				h := sha256.Sum256(redeemScript1of1(k.Pub[:]))
				if !got[h] {
					fail("internal-address-not-function-of-mnemonic", fmt.Sprintf("%s: restore with internal index %d: the address of m/44'/coin'/1'/1/%d is not among the wallet's addresses", cur.name, internalWanted, i))
					return
				}
			}
			t.Count("restores_with_internal_branch_addresses", 1)
			internalKnown[cur.dir] = true
		}
		known := len(issued)
		if route == 0 {
			known = count[cur.dir]
		}
		if route == 1 {
			known = exportedCount
		}
		if route == 2 {
			var hint int
			fmt.Sscanf(strings.TrimPrefix(shape[len(shape)-1], "mnemonic"), "%d", &hint)
			if hint < 1 {
				hint = 1
			}
			if hint < known {
				known = hint
			}
		}
		for i := 0; i < known; i++ {
			if !got[hashes[i]] {
				fail("address-differs-across-instances", fmt.Sprintf("%s (%s): the address at index %d (%s) of the original wallet is not among its addresses", cur.name, shape[len(shape)-1], i, issued[i]))
				return
			}
		}
		if route != 0 {
			count[cur.dir] = known
		}
		// the next addresses must be the ones at the next indexes, in every instance
		for k := 0; k < t.R.Range(1, 3) && count[cur.dir] < 19; k++ {
			if t.R.Chance(30) {
				unlock(cur)
			}
			if !issue(cur, uint16(t.R.Intn(2))) {
				return
			}
		}
		if route != 2 {
			if e2, err := cur.w.W.ExportWallet(id, pass); err == nil {
				exported, exportedCount = e2, count[cur.dir]
			}
		}
		if !checkKeys(cur) {
			return
		}
	}
	sort.Strings(shape)
	t.Nontrivial(fmt.Sprintf("bits%d|n%d|%s|ref%v", bits, bucket(len(issued)), strings.Join(shape, ","), useRef))
	if len(ops) > 25 {
		ops = ops[:25]
	}
	t.Sample(map[string]interface{}{"entropy_bits": bits, "addresses": len(issued), "routes": shape, "first_ops": ops})
}

func init() {
	plans := map[string]int{"quick": 60, "thorough": 2000}
	core.Register(&core.Property{
		ID:    "C04",
		Level: "exploration",
		Rule: "case = wallet from a fresh entropy of one of the five sizes and a random legal passphrase; 1-25 addresses of both classes issued (some after an unlock, i.e. from private material); then 1-4 routes into other instances with other public passphrases: restart, export→ImportWallet(keystore), mnemonic→ImportWalletWithMnemonic(hint), " +
			"each followed by further issuing. Oracles: wallet id and every address == independent derivation from (mnemonic, passphrase) with the harness BIP-39/BIP-32 references along m/44'/coin'/1'/0/i; id and address set equal across instances; each address == witness script hash of its listed public key; SignHash signature verifies under that key. " +
			"distinct_nontrivial = distinct (entropy bits, address-count bucket, route multiset, reference usable)",
		Assumptions: []string{"wallets whose purpose/coin key has a leading zero byte fall into the C14 known-finding class: there only cross-instance equality and key↔address consistency are checked", "KeystoreManager.ChangePubPassphrase is not reachable through WalletManager; different public passphrases are exercised by opening instances with different ones"},
		Cases:       func(tier string, seed int64) int { return plans[tier] },
		Run: func(t *core.T) {
			if t.Index%6 == 5 {
				c04TargetedCase(t) // wallets with a short scalar on the signing path (constructed, 1/256 each)
				return
			}
			c04Case(t)
		},
	})
}
