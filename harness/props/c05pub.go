package props

import (
	"fmt"
	"path/filepath"

	"massnet.org/mass-wallet/config"
	mwdb "massnet.org/mass-wallet/masswallet/db"
	"massnet.org/mass-wallet/masswallet/keystore"

	"verifharness/core"
)

// c05PubPassPhase: the public-passphrase clause of C05 at the level where a change of the public
// passphrase exists at all (KeystoreManager.ChangePubPassphrase is exported by the keystore library;
// WalletManager offers no way to call it). A keystore manager over a real wallet database holds 0-3
// keystores with different private passphrases; accepted and refused changes of the public passphrase
// (new value illegal, equal to the old one, equal to the private passphrase of ONE of the wallets,
// wrong old value) alternate with keystore creation and close/reopen. After every reopen the database
// must open with the passphrase of the last ACCEPTED change and with no other, and every keystore
// must still reveal its mnemonic for its private passphrase and refuse another one. A refused change
// must change nothing - in the database and in memory (what is created afterwards is sealed with the
// passphrase in memory).
func c05PubPassPhase(t *core.T, dir string) {
	const bucketName = "c05ks"
	pub := randPass(t.R)
	var ops []string
	logf := func(f string, a ...interface{}) { ops = append(ops, fmt.Sprintf(f, a...)) }
	fail := func(sig, msg string) { t.Violate(sig, msg, map[string]interface{}{"ops": ops}) }
	type ks struct{ id, pass, mnemonic string }
	var all []*ks
	var db mwdb.DB
	var km *keystore.KeystoreManager
	open := func(p string, create bool) error {
		var err error
		if create {
			db, err = mwdb.CreateDB("leveldb", dir)
		} else {
			db, err = mwdb.OpenDB("leveldb", dir)
		}
		if err != nil {
			return fmt.Errorf("harness: open db: %v", err)
		}
		return mwdb.Update(db, func(tx mwdb.DBTransaction) error {
			b, err := mwdb.GetOrCreateTopLevelBucket(tx, bucketName)
			if err != nil {
				return fmt.Errorf("harness: bucket: %v", err)
			}
			km, err = keystore.NewKeystoreManager(b, []byte(p), config.ChainParams)
			return err
		})
	}
	if err := open(pub, true); err != nil {
		t.Fatalf("keystore manager: %v", err)
	}
	defer func() {
		if db != nil {
			db.Close()
		}
	}()
	newKeystore := func() {
		pass := randPass(t.R)
		for pass == pub {
			pass = randPass(t.R)
		}
		var id, mn string
		err := mwdb.Update(db, func(tx mwdb.DBTransaction) error {
			var e error
			id, mn, e = km.NewKeystore(tx, []int{128, 192, 256}[t.R.Intn(3)], []byte(pass), "c05", config.ChainParams, &keystore.DefaultScryptOptions, 20)
			return e
		})
		if err != nil {
			fail("create-refused-after-pubpass-operations", fmt.Sprintf("NewKeystore: %v", err))
			return
		}
		all = append(all, &ks{id, pass, mn})
		logf("NewKeystore -> %s", id[:10])
	}
	for i := 0; i < t.R.Intn(3); i++ {
		newKeystore()
	}
	change := func(oldp, newp string) error {
		return mwdb.Update(db, func(tx mwdb.DBTransaction) error {
			return km.ChangePubPassphrase(tx, []byte(oldp), []byte(newp), &keystore.DefaultScryptOptions)
		})
	}
	steps := t.R.Range(3, 7)
	for s := 0; s < steps && !t.Failed(); s++ {
		switch t.R.Pick(30, 25, 20, 25) {
		case 0: // accepted change
			np := randPass(t.R)
			clash := np == pub
			for _, k := range all {
				if k.pass == np {
					clash = true
				}
			}
			if clash {
				continue
			}
			t.Eval(1)
			err := change(pub, np)
			logf("ChangePubPassphrase(right old, fresh new) -> %v", err)
			if err != nil {
				fail("pubpass-change-refused", fmt.Sprintf("a legal change of the public passphrase is refused: %v", err))
				return
			}
			pub = np
			t.Count("pubpass_changes_accepted", 1)
		case 1: // refused change
			var np, oldp, why string
			oldp = pub
			switch k := t.R.Intn(4); {
			case k == 0 && len(all) > 0:
				np, why = all[t.R.Intn(len(all))].pass, "new value is the private passphrase of one keystore"
			case k == 1:
				np, why = pub, "new value equals the old one"
			case k == 2:
				np, why = "short", "new value is not a legal passphrase"
			default:
				np, oldp, why = randPass(t.R), pub+"x", "old value is wrong"
				if len(all) == 0 {
					continue // nothing is sealed with the old value yet: the statement does not fix this case
				}
			}
			t.Eval(1)
			err := change(oldp, np)
			logf("ChangePubPassphrase (%s) -> %v", why, err)
			if err == nil {
				fail("pubpass-change-accepted", "a change of the public passphrase that must be refused ("+why+") is accepted")
				return
			}
			t.Count("pubpass_changes_refused", 1)
		case 2:
			if len(all) < 4 {
				newKeystore()
			}
		case 3: // close and reopen
			db.Close()
			db = nil
			t.Eval(1)
			if len(all) > 0 {
				wrong := pub + "x"
				if err := open(wrong, false); err == nil {
					fail("wrong-public-passphrase-accepted", "the keystore manager opens with a wrong public passphrase")
					return
				}
				if db != nil {
					db.Close()
					db = nil
				}
			}
			if err := open(pub, false); err != nil {
				fail("right-public-passphrase-refused", fmt.Sprintf("after accepted and refused changes of the public passphrase the keystore manager does not open with the passphrase of the last accepted change: %v", err))
				return
			}
			logf("-- reopened")
			for _, k := range all {
				t.Eval(1)
				var mn string
				err := mwdb.View(db, func(tx mwdb.ReadTransaction) error {
					var e error
					mn, _, e = km.GetMnemonic(tx, k.id, []byte(k.pass))
					return e
				})
				if err != nil || mn != k.mnemonic {
					fail("right-passphrase-refused:mnemonic-after-pubpass-change", fmt.Sprintf("GetMnemonic(%s) after reopen: %q %v", k.id[:10], mn, err))
					return
				}
				err = mwdb.View(db, func(tx mwdb.ReadTransaction) error {
					_, _, e := km.GetMnemonic(tx, k.id, []byte(k.pass+"x"))
					return e
				})
				if err == nil {
					fail("wrong-passphrase-accepted:mnemonic-after-pubpass-change", "GetMnemonic accepts a wrong private passphrase after reopen")
					return
				}
			}
			t.Count("reopens_after_pubpass_operations", 1)
		}
	}
	_ = filepath.Join
}
