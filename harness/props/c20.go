package props

import (
	"fmt"
	"path/filepath"
	"regexp"
	"runtime"
	"sort"
	"strings"
	"sync"
	"sync/atomic"
	"time"

	"github.com/massnetorg/mass-core/consensus"
	"github.com/massnetorg/mass-core/wire"
	"massnet.org/mass-wallet/masswallet"
	"massnet.org/mass-wallet/masswallet/keystore"

	"verifharness/core"
	"verifharness/sim"
)

// C20 — shutdown always completes; follower and background worker never deadlock.
//
// Monitor: schedule control at the yield points of the follower (`handle`), the worker and Stop
// (build tag verif). A dry run of a scenario (queued blocks / import task / removal task / both)
// records how often each point is passed; then for every (point, occurrence) the goroutine is
// parked exactly there, Stop is issued from another goroutine, and the parked goroutine is released
// only after Stop has closed the quit channel (variant A), after the peers had time to react to it
// (variant B), or — without any stop — after all blocks of the scenario are queued (variant H,
// progress). Oracles: Stop returns (a generous watchdog expiring is a violation only together with
// a goroutine dump that shows a structural deadlock: every wallet goroutine blocked in a channel or
// wait-group operation, identical in two dumps), the database directory can be opened again in
// the same process (LevelDB lock released), no follower goroutine died, and after a restart (or,
// for H, without one) every announced tip is applied and the accepted import/removal finishes.

type c20Gate struct {
	mu         sync.Mutex
	seen       map[string]int
	trace      []string
	target     string
	k          int
	armed      bool
	reached    chan struct{}
	release    chan struct{}
	quitClosed chan struct{}
	qcOnce     sync.Once
	sleep      *core.Rand // random delays at every point (stress cases)
	parked     int32
}

func newC20Gate() *c20Gate {
	return &c20Gate{seen: map[string]int{}, reached: make(chan struct{}), release: make(chan struct{}), quitClosed: make(chan struct{})}
}

func (g *c20Gate) fn(name string) {
	g.mu.Lock()
	g.seen[name]++
	if len(g.trace) < 4000 {
		g.trace = append(g.trace, name)
	}
	hit := g.armed && name == g.target && g.seen[name] == g.k
	if hit {
		g.armed = false
	}
	var d time.Duration
	if g.sleep != nil && !hit && g.sleep.Chance(35) {
		d = time.Duration(g.sleep.Intn(1500)) * time.Microsecond
	}
	g.mu.Unlock()
	if name == "stop.quitclosed" {
		g.qcOnce.Do(func() { close(g.quitClosed) })
	}
	if hit {
		close(g.reached)
		<-g.release
		return
	}
	if d > 0 {
		time.Sleep(d)
	}
}

func (g *c20Gate) counts() map[string]int {
	g.mu.Lock()
	defer g.mu.Unlock()
	m := map[string]int{}
	for k, v := range g.seen {
		m[k] = v
	}
	return m
}

// ---------------------------------------------------------------------------------------
// goroutine-dump classifier

var c20HeadRe = regexp.MustCompile(`^goroutine (\d+) \[([^\],]+)(?:, [^\]]*)?\]:`)

type c20G struct {
	id    string
	state string
	top   string
	text  string
}

func c20Dump() []c20G {
	buf := make([]byte, 1<<22)
	n := runtime.Stack(buf, true)
	var out []c20G
	for _, blk := range strings.Split(string(buf[:n]), "\n\n") {
		lines := strings.Split(strings.TrimSpace(blk), "\n")
		if len(lines) < 2 {
			continue
		}
		m := c20HeadRe.FindStringSubmatch(lines[0])
		if m == nil {
			continue
		}
		if !strings.Contains(blk, "mass-wallet/masswallet.") {
			continue
		}
		top := ""
		for _, l := range lines[1:] {
			if strings.HasPrefix(l, "massnet.org/mass-wallet/masswallet.") {
				top = strings.SplitN(strings.TrimPrefix(l, "massnet.org/mass-wallet/masswallet."), "(0x", 2)[0]
				top = strings.SplitN(top, "({", 2)[0]
				break
			}
		}
		out = append(out, c20G{id: m[1], state: m[2], top: top, text: blk})
	}
	sort.Slice(out, func(a, b int) bool { return out[a].id < out[b].id })
	return out
}

var c20Blocked = map[string]bool{"chan send": true, "chan receive": true, "select": true, "sync.WaitGroup.Wait": true, "semacquire": true,
	"sync.Mutex.Lock": true, "sync.RWMutex.Lock": true, "sync.RWMutex.RLock": true, "sync.Cond.Wait": true, "select (no cases)": true,
	"chan send (nil chan)": true, "chan receive (nil chan)": true}

// c20Structural: true when every goroutine with a wallet frame is blocked in a channel, lock or
// wait-group operation, none of them inside a harness gate, and a second dump one second later
// shows the same picture. Nothing but another such goroutine could wake them: a deadlock, not slowness.
func c20Structural() (bool, []string, string) {
	key := func(gs []c20G) (string, bool, []string) {
		var ks, sum []string
		ok := len(gs) > 0
		for _, g := range gs {
			if !c20Blocked[g.state] || strings.Contains(g.text, "verifharness/props.(*c20Gate).fn") {
				ok = false
			}
			ks = append(ks, g.id+"|"+g.state+"|"+g.top)
			sum = append(sum, fmt.Sprintf("goroutine %s [%s] in %s", g.id, g.state, g.top))
		}
		return strings.Join(ks, ";"), ok, sum
	}
	a := c20Dump()
	ka, oka, _ := key(a)
	time.Sleep(time.Second)
	b := c20Dump()
	kb, okb, sum := key(b)
	var full []string
	for _, g := range b {
		full = append(full, g.text)
	}
	return oka && okb && ka == kb, sum, strings.Join(full, "\n\n")
}

// ---------------------------------------------------------------------------------------
// scenarios

type c20Env struct {
	t     *core.T
	kind  string
	rs    *core.Rand
	n     *sim.Node
	w     *sim.Wallet
	wd    *sim.World
	dir   string
	gate  *c20Gate
	a     *sim.WalletKeys
	bMn   string
	bPass string
	bID   string
	gap   uint32
	// what the (possibly truncated) script has issued
	halt          int32
	importIssued  bool
	removeIssued  bool
	scriptStopped bool
	extraIDs      []string // further imports the wallet accepted (scenario crowd)
}

var c20Kinds = []string{"blocks", "import", "remove", "both"}

func (e *c20Env) setup(seed uint64) error {
	e.rs = core.NewRand(seed)
	e.gap = 20
	n, err := sim.NewNode(filepath.Join(e.dir, "node"))
	if err != nil {
		return fmt.Errorf("harness: %v", err)
	}
	e.n = n
	w, err := sim.OpenWallet(n, filepath.Join(e.dir, "wallet"), sim.NewConfig(e.gap))
	if err != nil {
		return fmt.Errorf("harness: %v", err)
	}
	e.w = w
	if err := w.Start(); err != nil {
		return fmt.Errorf("harness: start: %v", err)
	}
	e.wd = &sim.World{T: e.t, R: e.rs, N: n, W: w}
	e.wd.StrangerPub()
	a, err := e.wd.NewWalletKeys("c20passA", 128, 3)
	if err != nil {
		return fmt.Errorf("harness: create: %v", err)
	}
	e.a = a
	// wallet b exists as a mnemonic only; the chain pays to its first addresses before the import
	for {
		mn, err := keystore.NewMnemonic(e.rs.Bytes(16))
		if err != nil {
			return fmt.Errorf("harness: %v", err)
		}
		ref, err := refWalletFrom(mn, "c20passB")
		if err != nil || ref.ShortRisk {
			continue
		}
		kb := &sim.WalletKeys{ID: ref.ID(), Pass: "c20passB", Mnemonic: mn, Owned: map[[32]byte]bool{}, Staking: map[[32]byte]bool{}}
		for i := uint32(0); i < 3; i++ {
			if std, _, h, ok := ref.Address(i); ok {
				kb.Std = append(kb.Std, std)
				kb.Hashes = append(kb.Hashes, h)
				kb.Owned[h] = true
			}
		}
		e.wd.Keys = append(e.wd.Keys, kb)
		e.bMn, e.bPass, e.bID = mn, kb.Pass, kb.ID
		break
	}
	pre := e.rs.Range(6, 10)
	if e.kind == "longimport" {
		pre = 1003 + e.rs.Intn(5)
	}
	for i := 0; i < pre; i++ {
		nr := e.rs.Range(1, 3)
		if e.kind == "longimport" && i%97 != 5 {
			nr = 0
		}
		b, err := e.wd.Extend(nr)
		if err != nil {
			return fmt.Errorf("harness: extend: %v", err)
		}
		w.Deliver(b)
	}
	if e.kind == "bigremove" {
		str := e.wd.StrangerPub()
		for blk := 0; blk < 106; blk++ {
			cb := sim.Coinbase(n.Height()+1, e.rs.Uint64(), []*wire.TxOut{wire.NewTxOut(1, sim.P2WSH(str))})
			for i := 0; i < 200; i++ {
				cb.TxOut = append(cb.TxOut, wire.NewTxOut(int64(1000+i), sim.P2WSH(a.Hashes[i%len(a.Hashes)])))
			}
			b := n.NewBlock(n.Tip(), []*wire.MsgTx{cb})
			if err := n.Extend(b); err != nil {
				return fmt.Errorf("harness: extend: %v", err)
			}
			w.Deliver(b)
		}
	}
	if !w.Quiesce(120 * time.Second) {
		return fmt.Errorf("inconclusive: handler not idle after the pre-history")
	}
	return nil
}

func (e *c20Env) deliver(n int, forkAt int) error {
	for i := 0; i < n; i++ {
		if atomic.LoadInt32(&e.halt) != 0 {
			return nil
		}
		if i == forkAt && e.n.Height() > 4 {
			nb, _, err := e.wd.Fork(1, 2, 1)
			if err != nil {
				return fmt.Errorf("harness: fork: %v", err)
			}
			if nb != nil {
				e.w.Deliver(nb)
			}
			continue
		}
		b, err := e.wd.Extend(e.rs.Range(1, 2))
		if err != nil {
			return fmt.Errorf("harness: extend: %v", err)
		}
		// some transactions reach the wallet unconfirmed first, some of them more than once (every
		// peer relays them): the follower's in-memory pending set is then part of every scenario
		for j, tx := range b.Msg.Transactions {
			if j == 0 || !e.rs.Chance(50) {
				continue
			}
			e.w.DeliverTx(tx)
			e.t.Count("unconfirmed_deliveries", 1)
			if e.rs.Chance(50) {
				e.w.DeliverTx(tx)
				e.t.Count("unconfirmed_redeliveries", 1)
			}
		}
		e.w.Deliver(b)
	}
	return nil
}

func (e *c20Env) importB() error {
	if atomic.LoadInt32(&e.halt) != 0 {
		return nil
	}
	_, err := e.w.W.ImportWalletWithMnemonic(&keystore.WalletParams{Mnemonic: e.bMn, PrivatePassphrase: []byte(e.bPass), Remarks: "b", AddressGapLimit: e.gap})
	if err != nil {
		return fmt.Errorf("harness: import: %v", err)
	}
	e.importIssued = true
	return nil
}

// importExtra asks for the import of one more (empty) wallet; "too many tasks" is a legal answer,
// an accepted import must finish.
func (e *c20Env) importExtra() error {
	if atomic.LoadInt32(&e.halt) != 0 {
		return nil
	}
	mn, err := keystore.NewMnemonic(e.rs.Bytes(16))
	if err != nil {
		return fmt.Errorf("harness: %v", err)
	}
	sum, err := e.w.W.ImportWalletWithMnemonic(&keystore.WalletParams{Mnemonic: mn, PrivatePassphrase: []byte("c20passX"), Remarks: "x", AddressGapLimit: e.gap})
	if err == masswallet.ErrTooManyTask {
		e.t.Count("crowd_imports_refused_too_many_tasks", 1)
		return nil
	}
	if err != nil {
		return fmt.Errorf("harness: extra import: %v", err)
	}
	e.extraIDs = append(e.extraIDs, sum.WalletID)
	e.t.Count("crowd_imports_accepted", 1)
	return nil
}

func (e *c20Env) removeA() error {
	if atomic.LoadInt32(&e.halt) != 0 {
		return nil
	}
	if err := e.w.W.RemoveWallet(e.a.ID, e.a.Pass); err != nil {
		return fmt.Errorf("harness: remove: %v", err)
	}
	e.removeIssued = true
	return nil
}

// script: the non-waiting part of the scenario (API calls return at once, deliveries are queued).
func (e *c20Env) script() error {
	switch e.kind {
	case "blocks":
		return e.deliver(6, 3)
	case "import", "longimport", "import-retry", "crowd":
		if e.kind == "import-retry" || e.kind == "crowd" {
			// the first rescan round fails inside its suspended section (the node database refuses one
			// call): the worker must give the follower back and try again
			var once sync.Once
			e.n.Wrap.SetHook(func(method string) error {
				var err error
				if method == "FetchScriptHashRelatedTx" {
					once.Do(func() { err = sim.ErrInjected })
				}
				return err
			})
		}
		if err := e.importB(); err != nil {
			return err
		}
		if e.kind == "crowd" {
			// as many further imports as the wallet accepts while the first one (whose first round
			// fails and must be queued again) is running or waiting
			for i := 0; i < 4; i++ {
				if err := e.importExtra(); err != nil {
					return err
				}
			}
		}
		return e.deliver(3, -1)
	case "remove", "bigremove", "remove-retry":
		if e.kind == "remove-retry" {
			// one commit of the removal fails: the round is repeated
			var once sync.Once
			e.w.DB.SetHook(func(ev *sim.Event) error {
				var err error
				if ev.Kind == "commit" && ev.Role == "remove" {
					once.Do(func() { err = sim.ErrInjected })
				}
				return err
			})
		}
		if err := e.removeA(); err != nil {
			return err
		}
		return e.deliver(3, 1)
	case "both":
		if err := e.importB(); err != nil {
			return err
		}
		if err := e.deliver(1, -1); err != nil {
			return err
		}
		if err := e.removeA(); err != nil {
			return err
		}
		return e.deliver(3, 2)
	}
	return fmt.Errorf("harness: unknown scenario %s", e.kind)
}

// converged: every announced tip applied, tasks finished, wallet list as the scenario demands.
func (e *c20Env) converged(w *sim.Wallet) string {
	ws, err := w.W.Wallets()
	if err != nil {
		return "Wallets(): " + err.Error()
	}
	has := map[string]string{}
	for _, s := range ws {
		st := "ready"
		if s.Status.IsRemoved() {
			st = "removing"
		} else if !s.Status.Ready() {
			st = "importing"
		}
		has[s.WalletID] = st
	}
	wantB := e.importIssued
	wantA := !e.removeIssued
	if wantB && has[e.bID] != "ready" {
		return fmt.Sprintf("imported wallet is %q", has[e.bID])
	}
	for _, id := range e.extraIDs {
		if has[id] != "ready" {
			return fmt.Sprintf("accepted extra import %s is %q", id[:10], has[id])
		}
	}
	if wantA && has[e.a.ID] != "ready" {
		return fmt.Sprintf("wallet a is %q", has[e.a.ID])
	}
	if !wantA && has[e.a.ID] != "" {
		return fmt.Sprintf("removed wallet is still listed (%s)", has[e.a.ID])
	}
	h, _ := w.W.SyncedTo()
	if h != e.n.Height() {
		return fmt.Sprintf("synced to %d, node at %d", h, e.n.Height())
	}
	return ""
}

func (e *c20Env) waitConverged(w *sim.Wallet, d time.Duration) string {
	deadline := time.Now().Add(d)
	last := ""
	for {
		if last = e.converged(w); last == "" {
			return ""
		}
		if time.Now().After(deadline) {
			return last
		}
		time.Sleep(time.Millisecond)
	}
}

type c20Placement struct {
	point   string
	k       int
	variant string // A, B, H, "" = no placement (stop after convergence)
	sleeps  bool
	procs   int
	stopAt  int // stress: Stop after this many point hits (0 = after the script)
}

func (p c20Placement) String() string {
	if p.point == "" {
		if p.stopAt > 0 {
			return fmt.Sprintf("random(stopAfterHits=%d,procs=%d)", p.stopAt, p.procs)
		}
		return "dry"
	}
	return fmt.Sprintf("%s#%d/%s", p.point, p.k, p.variant)
}

// c20Run: one execution. Returns the point counts (for the dry run) and a verdict string:
// "" held, "inconclusive: …", "violation:<sig>: …".
func c20Run(t *core.T, kind string, seed uint64, dir string, p c20Placement) (map[string]int, string, map[string]interface{}) {
	sim.InitProcess(filepath.Join(filepath.Dir(t.Dir), "log"))
	sim.ResetFatalEvents()
	restoreConsensus()
	consensus.CoinbaseMaturity = 3
	defer restoreConsensus()
	if p.procs > 0 {
		old := runtime.GOMAXPROCS(p.procs)
		defer runtime.GOMAXPROCS(old)
	}
	e := &c20Env{t: t, kind: kind, dir: dir}
	wit := map[string]interface{}{"scenario": kind, "placement": p.String()}
	if err := e.setup(seed); err != nil {
		if e.w != nil {
			e.w.Stop(20 * time.Second)
		}
		if e.n != nil {
			e.n.Close()
		}
		if strings.HasPrefix(err.Error(), "inconclusive") {
			return nil, err.Error(), wit
		}
		return nil, "harness: " + err.Error(), wit
	}
	defer e.n.Close()
	g := newC20Gate()
	e.gate = g
	if p.sleeps {
		g.sleep = core.NewRand(seed ^ 0x5eed)
	}
	if p.point != "" {
		g.target, g.k, g.armed = p.point, p.k, true
	}
	e.w.Points.SetFn(g.fn)
	released := false
	release := func() {
		if !released {
			released = true
			close(g.release)
		}
	}
	defer release()
	fatal := func() string {
		if fe := sim.FatalEvents(); len(fe) > 0 {
			wit["fatal_event"] = fe[0]
			return "violation:follower-died: a wallet goroutine died: " + firstLineOf(fe[0])
		}
		return ""
	}
	stalled := func(what string) string {
		ok, sum, full := c20Structural()
		wit["goroutines"] = sum
		wit["trace_tail"] = tailStr(g.trace, 40)
		if ok {
			wit["dump"] = full
			return "violation:" + what
		}
		return "inconclusive: " + what + " (no structural deadlock in the goroutine dump)"
	}
	// the script runs in its own goroutine: a parked follower must not block the harness
	scriptDone := make(chan error, 1)
	go func() { scriptDone <- e.script() }()
	if p.stopAt > 0 {
		// stress: Stop after a number of point hits, wherever follower and worker are. The script
		// (API calls, announcements) is halted first: the process stops its API server and the
		// chain's notifications before it stops the wallet (loader.go UnloadWallet, mass.go).
		deadline := time.Now().Add(30 * time.Second)
		for {
			tot := 0
			for _, v := range g.counts() {
				tot += v
			}
			if tot >= p.stopAt || time.Now().After(deadline) {
				break
			}
			finished := false
			select {
			case err := <-scriptDone:
				scriptDone <- err
				finished = true
			default:
			}
			if finished && e.converged(e.w) == "" {
				break // everything done before the chosen moment: stop an idle wallet
			}
			time.Sleep(50 * time.Microsecond)
		}
		atomic.StoreInt32(&e.halt, 1)
	}
	reachedPlacement := false
	if p.point != "" {
		select {
		case <-g.reached:
			reachedPlacement = true
		case <-time.After(20 * time.Second):
		}
	}
	// wait for the script (deliveries are queued; API calls take no follower lock)
	{
		select {
		case err := <-scriptDone:
			if err != nil {
				release()
				e.w.Stop(20 * time.Second)
				return nil, err.Error(), wit
			}
		case <-time.After(60 * time.Second):
			release()
			v := stalled("script-blocked: an API call or a block announcement does not return")
			e.w.Stop(5 * time.Second)
			return nil, v, wit
		}
	}
	wit["placement_reached"] = reachedPlacement
	if p.variant == "H" || p.point == "" && p.stopAt == 0 {
		// progress without a stop
		release()
		if msg := e.waitConverged(e.w, 40*time.Second); msg != "" {
			if f := fatal(); f != "" {
				return nil, f, wit
			}
			v := stalled("no-progress: after all delays were released " + msg)
			e.w.Stop(5 * time.Second)
			return nil, v, wit
		}
	}
	// Stop
	stopDone := make(chan bool, 1)
	go func() { stopDone <- e.w.Stop(25 * time.Second) }()
	if reachedPlacement && (p.variant == "A" || p.variant == "B") {
		select {
		case <-g.quitClosed:
		case <-time.After(10 * time.Second):
		}
		if p.variant == "B" {
			time.Sleep(3 * time.Millisecond)
		}
		release()
	}
	if !<-stopDone {
		release()
		if f := fatal(); f != "" {
			return nil, f, wit
		}
		return nil, stalled("stop-never-returns: WalletManager.Stop did not return"), wit
	}
	if f := fatal(); f != "" {
		return nil, f, wit
	}
	counts := g.counts()
	// database closed: the directory can be opened again in this process, and after a restart all
	// accepted work finishes
	w2, err := sim.OpenWallet(e.n, filepath.Join(e.dir, "wallet"), sim.NewConfig(e.gap))
	if err != nil {
		return counts, "violation:db-not-closed: Stop returned but the wallet database cannot be opened again: " + err.Error(), wit
	}
	if err := w2.Start(); err != nil {
		w2.CloseUnstarted()
		return counts, "violation:restart-fails: Start after the stop fails: " + err.Error(), wit
	}
	msg := e.waitConverged(w2, 60*time.Second)
	if msg != "" {
		if f := fatal(); f != "" {
			w2.Stop(5 * time.Second)
			return counts, f, wit
		}
		v := stalled("no-progress-after-restart: " + msg)
		w2.Stop(5 * time.Second)
		return counts, v, wit
	}
	if !w2.Stop(25 * time.Second) {
		return counts, stalled("stop-never-returns: WalletManager.Stop of the restarted idle wallet did not return"), wit
	}
	if f := fatal(); f != "" {
		return counts, f, wit
	}
	return counts, "", wit
}

func c20Report(t *core.T, kind string, p c20Placement, verdict string, wit map[string]interface{}) bool {
	switch {
	case verdict == "":
		return true
	case strings.HasPrefix(verdict, "violation:"):
		rest := strings.TrimPrefix(verdict, "violation:")
		sig := strings.SplitN(rest, ":", 2)[0]
		t.Violate(sig+":"+kind, fmt.Sprintf("scenario %s, placement %s: %s", kind, p, rest), wit)
	case strings.HasPrefix(verdict, "inconclusive"):
		t.Inconclusive(fmt.Sprintf("scenario %s, placement %s: %s", kind, p, verdict))
	default:
		t.Fatalf("scenario %s, placement %s: %s", kind, p, verdict)
	}
	return false
}

var c20Points = []string{"handle.loop", "handle.suspended", "block.committed", "worker.loop", "worker.task", "import.begin", "remove.round",
	"suspend.before", "suspend.after", "resume.before", "resume.after"}

// c20Placements: all placements of one scenario (dry run first).
func c20Placements(t *core.T, kind string, maxPerPoint int) {
	seed := t.R.Uint64()
	counts, verdict, wit := c20Run(t, kind, seed, filepath.Join(t.Dir, "dry"), c20Placement{})
	t.Eval(1)
	if !c20Report(t, kind, c20Placement{}, verdict, wit) {
		return
	}
	t.Nontrivial(kind + "|dry")
	var plan []c20Placement
	exhaustive := true
	for _, pt := range c20Points {
		n := counts[pt]
		t.Observe("point_occurrences", fmt.Sprintf("%s:%s=%d", kind, pt, n))
		var ks []int
		if n <= maxPerPoint {
			for k := 1; k <= n; k++ {
				ks = append(ks, k)
			}
		} else {
			exhaustive = false
			seen := map[int]bool{}
			for k := 1; k <= 3; k++ {
				seen[k], seen[n+1-k] = true, true
			}
			for len(seen) < maxPerPoint {
				seen[1+t.R.Intn(n)] = true
			}
			for k := range seen {
				ks = append(ks, k)
			}
			sort.Ints(ks)
		}
		for _, k := range ks {
			plan = append(plan, c20Placement{point: pt, k: k, variant: "A"}, c20Placement{point: pt, k: k, variant: "B"})
			if k%2 == 1 {
				plan = append(plan, c20Placement{point: pt, k: k, variant: "H"})
			}
		}
	}
	for i, p := range plan {
		if t.Failed() {
			break
		}
		t.Eval(1)
		_, verdict, wit := c20Run(t, kind, seed, filepath.Join(t.Dir, fmt.Sprintf("p%d", i)), p)
		if !c20Report(t, kind, p, verdict, wit) {
			continue
		}
		if wit["placement_reached"] == true {
			t.Nontrivial(kind + "|" + p.String())
			t.Count("placements_"+p.variant, 1)
			t.Observe("points_parked", p.point)
		} else {
			t.Count("placement_not_reached", 1)
		}
	}
	t.Observe("exhaustive", fmt.Sprintf("%s:%v", kind, exhaustive))
	t.Sample(map[string]interface{}{"scenario": kind, "point_counts": counts, "placements_run": len(plan), "exhaustive": exhaustive})
}

// c20Few runs a scenario with a short, fixed list of placements (scenarios whose set-up is too
// expensive for the full enumeration in the quick tier).
func c20Few(t *core.T, kind string, plan []c20Placement) {
	seed := t.R.Uint64()
	for i, p := range plan {
		if t.Failed() {
			break
		}
		t.Eval(1)
		_, verdict, wit := c20Run(t, kind, seed, filepath.Join(t.Dir, fmt.Sprintf("f%d", i)), p)
		if !c20Report(t, kind, p, verdict, wit) {
			continue
		}
		if wit["placement_reached"] == true {
			t.Nontrivial(kind + "|" + p.String())
			t.Count("placements_"+p.variant, 1)
			t.Observe("points_parked", p.point)
		} else {
			t.Count("placement_not_reached", 1)
		}
	}
	t.Sample(map[string]interface{}{"scenario": kind, "placements_run": len(plan), "exhaustive": false})
}

// c20ReadOnly: the store under the wallet database stops accepting writes while the wallet runs (every
// commit from then on fails inside the wallet's own database layer); blocks keep arriving, an import or a
// removal is asked for; the follower must go on consuming events, Stop must return with the database
// closed, and after a restart (the store writable again) everything is caught up.
func c20ReadOnly(t *core.T, n int) {
	for i := 0; i < n && !t.Failed(); i++ {
		t.Eval(1)
		what := []string{"blocks", "import", "remove"}[i%3]
		verdict, wit := c20ReadOnlyRun(t, what, t.R.Uint64(), filepath.Join(t.Dir, fmt.Sprintf("ro%d", i)))
		if c20Report(t, "readonly-"+what, c20Placement{}, verdict, wit) {
			t.Nontrivial("readonly|" + what)
			t.Count("stops_after_the_store_went_read_only", 1)
		}
	}
}

func c20ReadOnlyRun(t *core.T, what string, seed uint64, dir string) (string, map[string]interface{}) {
	sim.InitProcess(filepath.Join(filepath.Dir(t.Dir), "log"))
	sim.ResetFatalEvents()
	restoreConsensus()
	consensus.CoinbaseMaturity = 3
	defer restoreConsensus()
	e := &c20Env{t: t, kind: "blocks", dir: dir}
	wit := map[string]interface{}{"scenario": "readonly-" + what}
	if err := e.setup(seed); err != nil {
		if e.w != nil {
			e.w.Stop(20 * time.Second)
		}
		if e.n != nil {
			e.n.Close()
		}
		if strings.HasPrefix(err.Error(), "inconclusive") {
			return err.Error(), wit
		}
		return "harness: " + err.Error(), wit
	}
	defer e.n.Close()
	stalled := func(what string) string {
		ok, sum, full := c20Structural()
		wit["goroutines"] = sum
		if ok {
			wit["dump"] = full
			return "violation:" + what
		}
		return "inconclusive: " + what + " (no structural deadlock in the goroutine dump)"
	}
	if err := e.deliver(2, -1); err != nil {
		e.w.Stop(20 * time.Second)
		return err.Error(), wit
	}
	if !e.w.Quiesce(60 * time.Second) {
		e.w.Stop(20 * time.Second)
		return "inconclusive: handler not idle before the store goes read-only", wit
	}
	if err := e.w.DB.MakeReadOnly(); err != nil {
		e.w.Stop(20 * time.Second)
		return "harness: " + err.Error(), wit
	}
	switch what {
	case "import":
		_, err := e.w.W.ImportWalletWithMnemonic(&keystore.WalletParams{Mnemonic: e.bMn, PrivatePassphrase: []byte(e.bPass), Remarks: "b", AddressGapLimit: e.gap})
		wit["import_answer"] = fmt.Sprint(err)
		if err == nil {
			return "violation:write-accepted-on-read-only-store: ImportWalletWithMnemonic reported success although no write can reach the store", wit
		}
	case "remove":
		err := e.w.W.RemoveWallet(e.a.ID, e.a.Pass)
		wit["remove_answer"] = fmt.Sprint(err)
		if err == nil {
			return "violation:write-accepted-on-read-only-store: RemoveWallet reported success although no write can reach the store", wit
		}
	}
	if err := e.deliver(3, 1); err != nil {
		e.w.Stop(20 * time.Second)
		return err.Error(), wit
	}
	// every announced tip is consumed (applying it fails: that is storage, not a deadlock)
	if !e.w.Quiesce(40 * time.Second) {
		if fe := sim.FatalEvents(); len(fe) > 0 {
			e.w.Stop(5 * time.Second)
			return "violation:follower-died: a wallet goroutine died: " + firstLineOf(fe[0]), wit
		}
		v := stalled("no-progress: the follower stops consuming announcements after a failed commit")
		e.w.Stop(5 * time.Second)
		return v, wit
	}
	if !e.w.Stop(25 * time.Second) {
		return stalled("stop-never-returns: WalletManager.Stop did not return after commits had failed"), wit
	}
	if fe := sim.FatalEvents(); len(fe) > 0 {
		return "violation:follower-died: a wallet goroutine died: " + firstLineOf(fe[0]), wit
	}
	w2, err := sim.OpenWallet(e.n, filepath.Join(e.dir, "wallet"), sim.NewConfig(e.gap))
	if err != nil {
		return "violation:db-not-closed: Stop returned but the wallet database cannot be opened again: " + err.Error(), wit
	}
	if err := w2.Start(); err != nil {
		w2.CloseUnstarted()
		return "violation:restart-fails: Start after the stop fails: " + err.Error(), wit
	}
	msg := e.waitConverged(w2, 60*time.Second)
	if msg != "" {
		v := stalled("no-progress-after-restart: " + msg)
		w2.Stop(5 * time.Second)
		return v, wit
	}
	if !w2.Stop(25 * time.Second) {
		return stalled("stop-never-returns: WalletManager.Stop of the restarted idle wallet did not return"), wit
	}
	return "", wit
}

// c20Stress: Stop at a PRNG-chosen moment with random delays at all points and few processors.
func c20Stress(t *core.T, n int) {
	for i := 0; i < n && !t.Failed(); i++ {
		kind := c20Kinds[t.R.Intn(len(c20Kinds))]
		p := c20Placement{sleeps: t.R.Chance(70), procs: []int{1, 2, 4, 16}[t.R.Intn(4)], stopAt: 1 + t.R.Intn(60)}
		t.Eval(1)
		_, verdict, wit := c20Run(t, kind, t.R.Uint64(), filepath.Join(t.Dir, fmt.Sprintf("s%d", i)), p)
		if c20Report(t, kind, p, verdict, wit) {
			t.Nontrivial(fmt.Sprintf("%s|%s|%v", kind, p, p.sleeps))
			t.Count("random_stops", 1)
			t.Observe("gomaxprocs", fmt.Sprint(p.procs))
		}
	}
}

func init() {
	core.Register(&core.Property{
		ID:    "C20",
		Level: "exploration",
		Rule: "case = one scenario (queued blocks incl. a reorg / import of a wallet with history while blocks arrive / removal while blocks and a reorg arrive / import and removal queued together / an import whose first rescan round fails (node database error) and is retried / a removal one of whose commits fails and is retried; thorough adds a >1000-block two-batch import and a >20 000-credit multi-round removal) or a batch of random stops, or runs in which the LevelDB store under the running wallet goes read-only (every later commit fails inside the wallet's database layer): blocks keep arriving, an import or removal must be refused, the follower must keep consuming announcements, Stop must return and a restart catch up. " +
			"A dry run counts the passes of the 11 yield points of follower and worker; for every (point, occurrence) [quick: ≤8 occurrences per point] the goroutine is parked there and (A) Stop is issued and the goroutine released once Stop has closed quit, (B) released 3 ms later, (H, odd occurrences) released without a stop after all blocks are queued. " +
			"Oracles: Stop returns — watchdog 25 s, its expiry is a violation only with two identical goroutine dumps in which every wallet goroutine is blocked in a channel/lock/wait-group operation, otherwise inconclusive; the database can be re-opened in-process; no goroutine died; after restart (H: without) SyncedTo reaches the node's tip, the import is ready and the removed wallet gone. " +
			"Random stops: Stop after a PRNG-chosen number of point passes with 0–1.5 ms delays at 35 % of the passes, GOMAXPROCS ∈ {1,2,4,16}. distinct_nontrivial = distinct (scenario, point, occurrence, variant) actually parked + distinct random stops",
		Assumptions: []string{"a goroutine is parked only at the hook points (all outside database transactions); Stop is called once", "bounded progress instead of 'eventually': convergence within 40–60 s after all gates are open, expiry without a structural deadlock is inconclusive"},
		CaseTimeout: 1700 * time.Second,
		Race:        true,
		UseRace:     func(tier string, idx int) bool { return idx%6 == 5 },
		Cases: func(tier string, seed int64) int {
			if tier == "thorough" {
				return 36
			}
			return 12
		},
		Run: func(t *core.T) {
			quick := t.Tier != "thorough"
			max := 8
			if !quick {
				max = 1000
			}
			switch {
			case t.Index < 4:
				c20Placements(t, c20Kinds[t.Index], max)
			case t.Index == 4:
				c20Placements(t, "import-retry", max)
			case t.Index == 6:
				c20Placements(t, "remove-retry", max)
			case quick && t.Index == 7:
				c20Placements(t, "crowd", 4)
			case quick && t.Index == 9:
				// a removal that needs several rounds (> 20 000 credits): progress between the rounds and
				// a stop between them (the full enumeration of this scenario is in the thorough tier)
				c20Few(t, "bigremove", []c20Placement{{point: "remove.round", k: 2, variant: "H"}, {point: "remove.round", k: 2, variant: "A"}, {point: "handle.suspended", k: 3, variant: "H"}})
				c20ReadOnly(t, 3)
			case !quick && t.Index == 13:
				c20Placements(t, "crowd", max)
			case !quick && t.Index == 7:
				c20Placements(t, "longimport", 6)
			case !quick && t.Index == 8:
				c20Placements(t, "bigremove", 6)
				c20ReadOnly(t, 12)
			case !quick && t.Index >= 9 && t.Index < 13:
				c20Placements(t, c20Kinds[t.Index-9], max)
			default:
				n := 12
				if !quick {
					n = 120
				}
				c20Stress(t, n)
			}
		},
	})
}
