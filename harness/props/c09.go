package props

import (
	"encoding/binary"
	"fmt"
	"sort"
	"strings"

	"github.com/massnetorg/mass-core/blockchain"
	"github.com/massnetorg/mass-core/massutil"
	"github.com/massnetorg/mass-core/wire"

	"verifharness/core"
	"verifharness/sim"
)

// C09 — pending transactions are tracked exactly: flagged, not reused, settled once.
// Monitor: a pending-set model driven by the same event sequence, compared with
// (i) API observations (GetUtxo spent_by_unmined, automatic coin selection, pending history
// entries, ledger equality) and (ii) the raw pending buckets m / mc decoded with the layouts of
// txmgr/type.go.

type pendModel struct {
	wd   *sim.World
	P    map[wire.Hash]*wire.MsgTx // pending set
	ord  []wire.Hash               // insertion order (parents first)
	dead map[wire.Hash]*wire.MsgTx // purged transactions / disconnected coinbases (their outputs can never exist)
	U    map[wire.Hash]*wire.MsgTx // unspecified: pending children of a purged transaction through an output the wallet does not own
	exp  map[wire.Hash]int         // how many of {confirm, conflict, rollback} a tx experienced
}

func newPendModel(wd *sim.World) *pendModel {
	return &pendModel{wd: wd, P: map[wire.Hash]*wire.MsgTx{}, dead: map[wire.Hash]*wire.MsgTx{}, U: map[wire.Hash]*wire.MsgTx{}, exp: map[wire.Hash]int{}}
}

func (m *pendModel) add(tx *wire.MsgTx) {
	h := tx.TxHash()
	if _, ok := m.P[h]; !ok {
		m.P[h] = tx
		m.ord = append(m.ord, h)
	}
}

func (m *pendModel) remove(h wire.Hash) {
	delete(m.P, h)
	for i, x := range m.ord {
		if x == h {
			m.ord = append(m.ord[:i], m.ord[i+1:]...)
			break
		}
	}
}

func (m *pendModel) ordered() []*wire.MsgTx {
	var out []*wire.MsgTx
	for _, h := range m.ord {
		out = append(out, m.P[h])
	}
	return out
}

// relevant: pays or spends a wallet coin (v must contain the spent outputs, or they are pending outputs).
func (m *pendModel) relevant(tx *wire.MsgTx, v *sim.View) bool {
	owned := m.wd.AllOwned()
	for _, o := range tx.TxOut {
		ro := sim.ReadOut(wire.OutPoint{}, o, 0, false)
		if _, ok := owned[ro.Hash]; ok && ro.HasHash {
			return true
		}
	}
	for _, in := range tx.TxIn {
		if o := m.lookup(in.PreviousOutPoint, v); o != nil && o.HasHash {
			if _, ok := owned[o.Hash]; ok {
				return true
			}
		}
	}
	return false
}

func (m *pendModel) lookup(op wire.OutPoint, v *sim.View) *sim.Out {
	if o := v.Outs[op]; o != nil {
		return o
	}
	if p, ok := m.P[op.Hash]; ok && int(op.Index) < len(p.TxOut) {
		return sim.ReadOut(op, p.TxOut[op.Index], 0, false)
	}
	return nil
}

// settle applies the purge rules against the new best-chain view v. returned = wallet-relevant
// non-coinbase transactions of disconnected blocks; deadCoinbase = coinbases of disconnected blocks.
// Only wallet-owned coins are decisive (the wallet cannot see conflicts on coins of strangers).
func (m *pendModel) settle(v *sim.View, returned []*wire.MsgTx, deadCoinbase []*wire.MsgTx) {
	for _, tx := range returned {
		h := tx.TxHash()
		if _, u := m.U[h]; u {
			continue
		}
		m.add(tx)
		m.exp[h]++
	}
	for _, cb := range deadCoinbase {
		m.dead[cb.TxHash()] = cb
	}
	owned := m.wd.AllOwned()
	ownedOut := func(tx *wire.MsgTx, idx uint32) bool {
		if int(idx) >= len(tx.TxOut) {
			return false
		}
		ro := sim.ReadOut(wire.OutPoint{}, tx.TxOut[idx], 0, false)
		_, mine := owned[ro.Hash]
		return mine && ro.HasHash
	}
	// confirmed
	for h := range m.P {
		if _, ok := v.Txs[h]; ok {
			m.remove(h)
			m.exp[h]++
		}
	}
	for h := range m.U {
		if _, ok := v.Txs[h]; ok {
			delete(m.U, h)
		}
	}
	for changed := true; changed; {
		changed = false
		for _, h := range append([]wire.Hash{}, m.ord...) {
			tx := m.P[h]
			purge, unspec := false, false
			for _, in := range tx.TxIn {
				op := in.PreviousOutPoint
				if o := v.Outs[op]; o != nil {
					_, mine := owned[o.Hash]
					if o.Spent && o.SpentBy != h && mine && o.HasHash {
						purge = true // a conflicting transaction confirmed on a wallet coin
					}
					continue
				}
				if d, ok := m.dead[op.Hash]; ok {
					if ownedOut(d, op.Index) {
						purge = true
					} else if !isCoinbase(d) {
						unspec = true // child of a purged transaction through a stranger's output
					}
				}
				if _, ok := m.U[op.Hash]; ok {
					unspec = true
				}
			}
			if purge {
				m.remove(h)
				m.dead[h] = tx
				m.exp[h]++
				changed = true
			} else if unspec {
				m.remove(h)
				m.U[h] = tx
				changed = true
			}
		}
	}
}

func isCoinbase(tx *wire.MsgTx) bool { return blockchain.IsCoinBaseTx(tx) }

// flagged: wallet coins unspent on the best chain that a pending transaction spends.
func (m *pendModel) flagged(v *sim.View) map[wire.OutPoint]bool {
	f := map[wire.OutPoint]bool{}
	owned := m.wd.AllOwned()
	for _, tx := range m.P {
		for _, in := range tx.TxIn {
			if o := v.Outs[in.PreviousOutPoint]; o != nil && !o.Spent && o.HasHash {
				if _, ok := owned[o.Hash]; ok {
					f[in.PreviousOutPoint] = true
				}
			}
		}
	}
	return f
}

func c09Check(t *core.T, wd *sim.World, m *pendModel, when string) bool {
	if !wd.Settle() {
		t.Inconclusive("handler not idle " + when)
		return false
	}
	t.Eval(1)
	ok := true
	fail := func(sig, msg string) {
		ok = false
		w := wd.Witness()
		w["when"] = when
		var pend []string
		for _, h := range m.ord {
			pend = append(pend, h.String()[:10])
		}
		w["model_pending"] = pend
		t.Violate(sig, when+": "+msg, w)
	}
	// (a) ledger equality: pending outputs are not confirmed funds, confirmed ones counted once
	d := wd.CheckLedger(sim.CompareOpts{Histories: true, AddrBal: true})
	if len(d) > 0 {
		reportLedgerDiffs(t, wd, d, when)
		return false
	}
	v, err := sim.ViewOfChain(wd.N.BestChain())
	if err != nil {
		t.Fatalf("view: %v", err)
	}
	// (b) raw pending bucket == model
	raw, err := wd.W.RawBucket("t", "m")
	if err != nil {
		t.Fatalf("raw bucket: %v", err)
	}
	for k, val := range raw {
		var h wire.Hash
		copy(h[:], k)
		if _, u := m.U[h]; u {
			continue
		}
		if _, inModel := m.P[h]; !inModel {
			fail("stale-pending-record", fmt.Sprintf("pending bucket still holds %s which the model has settled (confirmed, conflicted or never pending)", h.String()))
			continue
		}
		// read back: 8-byte time || wire.DB transaction with the same id
		if len(val) < 8 {
			fail("pending-record-unreadable", fmt.Sprintf("pending record of %s is %d bytes", h.String(), len(val)))
			continue
		}
		var tx wire.MsgTx
		if err := tx.SetBytes(val[8:], wire.DB); err != nil || tx.TxHash() != h {
			fail("pending-record-unreadable", fmt.Sprintf("pending record of %s cannot be read back as its transaction (%d bytes, first 8 = %d): %v", h.String(), len(val), binary.BigEndian.Uint64(val[:8]), err))
		}
	}
	for h := range m.P {
		if _, okk := raw[string(h[:])]; !okk {
			fail("pending-tx-lost", fmt.Sprintf("transaction %s must be pending (model) but is not in the pending bucket", h.String()))
		}
	}
	// (c) pending credits bucket: exactly the wallet-paying outputs of pending transactions
	owned := wd.AllOwned()
	wantMC := map[string]bool{}
	for h, tx := range m.P {
		for i, o := range tx.TxOut {
			ro := sim.ReadOut(wire.OutPoint{}, o, 0, false)
			if _, mine := owned[ro.Hash]; mine && ro.HasHash {
				k := make([]byte, 36)
				copy(k, h[:])
				binary.BigEndian.PutUint32(k[32:], uint32(i))
				wantMC[string(k)] = true
			}
		}
	}
	mc, err := wd.W.RawBucket("u", "mc")
	if err == nil {
		for k := range mc {
			var ph wire.Hash
			copy(ph[:], k)
			if _, u := m.U[ph]; u {
				continue
			}
			if !wantMC[k] {
				var h wire.Hash
				copy(h[:], k)
				fail("stale-pending-credit", fmt.Sprintf("pending-credit bucket holds output of %s which is not a pending wallet credit", h.String()))
			}
		}
		for k := range wantMC {
			if _, okk := mc[k]; !okk {
				var h wire.Hash
				copy(h[:], k)
				fail("pending-credit-lost", fmt.Sprintf("pending wallet credit of %s is missing from the pending-credit bucket", h.String()))
			}
		}
	}
	// (d) user-visible flags
	flagged := m.flagged(v)
	nFlag := 0
	for _, k := range wd.Keys {
		if _, err := wd.W.W.UseWallet(k.ID); err != nil {
			continue
		}
		utx, err := wd.W.W.GetUtxo(nil)
		if err != nil {
			fail("getutxo-error", err.Error())
			continue
		}
		for _, list := range utx {
			for _, u := range list {
				hh, _ := wire.NewHashFromStr(u.TxId)
				op := wire.OutPoint{Hash: *hh, Index: u.Vout}
				want := flagged[op]
				if want {
					nFlag++
				}
				if !want && m.spentByUnspecified(op) {
					continue
				}
				if u.SpentByUnmined != want {
					if want {
						fail("spent-by-unmined-flag-missing", fmt.Sprintf("coin %s:%d is spent by a pending transaction but GetUtxo reports spent_by_unmined=false", u.TxId, u.Vout))
					} else {
						fail("spent-by-unmined-flag-stale", fmt.Sprintf("coin %s:%d is free (no pending spender) but GetUtxo reports spent_by_unmined=true", u.TxId, u.Vout))
					}
				}
			}
		}
		// (e) automatic selection never picks a flagged coin
		if len(flagged) > 0 && len(k.Std) > 0 {
			for try := 0; try < 3; try++ {
				to := sim.StdAddr(wd.Strangers[0])
				amtv, _ := massutil.NewAmountFromInt(int64(t.R.Range(1000, 50000000)))
				hexTx, _, err := wd.W.W.AutoCreateRawTransaction(map[string]massutil.Amount{to: amtv}, 0, massutil.ZeroAmount(), "", "", nil)
				if err != nil {
					break
				}
				var tx wire.MsgTx
				if b, e := hexDecode(hexTx); e == nil && tx.SetBytes(b, wire.Packet) == nil {
					for _, in := range tx.TxIn {
						if flagged[in.PreviousOutPoint] {
							fail("pending-spent-coin-selected", fmt.Sprintf("AutoCreateRawTransaction selected %v which a pending transaction already spends", in.PreviousOutPoint))
						}
					}
					wd.W.W.ClearUsedUTXOMark(&tx)
					t.Count("auto_selections_inspected", 1)
				}
			}
		}
		// (f) pending staking/binding history entries == pending deposits of this wallet
		wantPend := map[string]bool{}
		for h, tx := range m.P {
			for i, o := range tx.TxOut {
				ro := sim.ReadOut(wire.OutPoint{}, o, 0, false)
				if ro.HasHash && k.Owned[ro.Hash] && ro.Class != sim.ClassStd {
					wantPend[fmt.Sprintf("%s:%d", h.String(), i)] = true
				}
			}
		}
		gotPend := map[string]bool{}
		// (g) a mined, unspent deposit is shown as being withdrawn exactly while a pending transaction spends it
		histFlag := func(name string, txh wire.Hash, idx uint32, height uint64, spent, sbu bool) {
			if height == 0 || spent {
				return
			}
			op := wire.OutPoint{Hash: txh, Index: idx}
			if o := v.Outs[op]; o == nil || o.Spent || m.spentByUnspecified(op) {
				return
			}
			t.Count("deposit_withdrawing_flags_compared", 1)
			if want := flagged[op]; sbu != want {
				if want {
					fail("spent-by-unmined-flag-missing", fmt.Sprintf("%s: deposit %v is spent by a pending transaction but is not shown as being withdrawn", name, op))
				} else {
					fail("spent-by-unmined-flag-stale", fmt.Sprintf("%s: deposit %v has no pending spender but is shown as being withdrawn", name, op))
				}
			}
		}
		if hs, err := wd.W.W.GetStakingHistory(false); err == nil {
			for _, x := range hs {
				histFlag("GetStakingHistory", x.TxHash, x.Index, x.BlockHeight, x.Utxo.Spent, x.Utxo.SpentByUnmined)
			}
		}
		if hs, err := wd.W.W.GetBindingHistory(false); err == nil {
			for _, x := range hs {
				histFlag("GetBindingHistory", x.TxHash, x.Index, x.BlockHeight, x.Utxo.Spent, x.Utxo.SpentByUnmined)
			}
		}
		if hs, err := wd.W.W.GetStakingHistory(false); err == nil {
			for _, x := range hs {
				if x.BlockHeight == 0 {
					gotPend[fmt.Sprintf("%s:%d", x.TxHash.String(), x.Index)] = true
				}
			}
		} else {
			fail("history-error", "GetStakingHistory: "+err.Error())
		}
		if hs, err := wd.W.W.GetBindingHistory(false); err == nil {
			for _, x := range hs {
				if x.BlockHeight == 0 {
					gotPend[fmt.Sprintf("%s:%d", x.TxHash.String(), x.Index)] = true
				}
			}
		} else {
			fail("history-error", "GetBindingHistory: "+err.Error())
		}
		for x := range wantPend {
			if !gotPend[x] {
				fail("pending-deposit-missing", "pending staking/binding deposit "+x+" is not listed as pending in the history")
			}
		}
		for x := range gotPend {
			if hh, e := wire.NewHashFromStr(strings.SplitN(x, ":", 2)[0]); e == nil {
				if _, u := m.U[*hh]; u {
					continue
				}
			}
			if !wantPend[x] {
				fail("pending-deposit-stale", "history lists pending deposit "+x+" which is not pending any more")
			}
		}
	}
	t.Count("flagged_coins_observed", nFlag)
	t.Max("pending_set_size", len(m.P))
	return ok
}

func hexDecode(s string) ([]byte, error) {
	b := make([]byte, len(s)/2)
	for i := 0; i+1 < len(s); i += 2 {
		var x byte
		for j := 0; j < 2; j++ {
			c := s[i+j]
			switch {
			case c >= '0' && c <= '9':
				x = x<<4 | (c - '0')
			case c >= 'a' && c <= 'f':
				x = x<<4 | (c - 'a' + 10)
			case c >= 'A' && c <= 'F':
				x = x<<4 | (c - 'A' + 10)
			default:
				return nil, fmt.Errorf("bad hex")
			}
		}
		b[i/2] = x
	}
	return b, nil
}

// pendingTx builds a new unconfirmed transaction valid on best chain + pending set.
func c09NewPending(t *core.T, wd *sim.World, m *pendModel, v *sim.View) *wire.MsgTx {
	owned := wd.AllOwned()
	usedByPending := map[wire.OutPoint]bool{}
	for _, tx := range m.P {
		for _, in := range tx.TxIn {
			usedByPending[in.PreviousOutPoint] = true
		}
	}
	var cands []*sim.Out
	kind := t.R.Pick(5, 3, 3) // wallet coin spend, stranger→wallet, child of pending
	// some wallet-coin spends conflict with a transaction that is already pending (a second spender of
	// the same wallet coin, as after a reorganisation returned the first one to the pending set)
	conflict := kind == 0 && t.R.Chance(15)
	switch kind {
	case 0, 1:
		for _, o := range v.SortedOuts() {
			if o.Spent || !o.HasHash || o.Value < 1000 || usedByPending[o.OP] != conflict || !v.Mature(o) {
				continue
			}
			_, mine := owned[o.Hash]
			if mine == (kind == 0) {
				cands = append(cands, o)
			}
		}
	case 2:
		for h, tx := range m.P {
			for i, o := range tx.TxOut {
				op := wire.OutPoint{Hash: h, Index: uint32(i)}
				ro := sim.ReadOut(op, o, 0, false)
				if _, mine := owned[ro.Hash]; mine && ro.HasHash && ro.Class == sim.ClassStd && !usedByPending[op] && o.Value >= 1000 {
					cands = append(cands, ro)
				}
			}
		}
	}
	if len(cands) == 0 {
		return nil
	}
	sort.Slice(cands, func(i, j int) bool {
		if cands[i].OP.Hash != cands[j].OP.Hash {
			return cands[i].OP.Hash.String() < cands[j].OP.Hash.String()
		}
		return cands[i].OP.Index < cands[j].OP.Index
	})
	in := cands[t.R.Intn(len(cands))]
	if conflict {
		t.Count("pending_transactions_conflicting_with_a_pending_one", 1)
	}
	val := in.Value - in.Value/100
	ins := []wire.OutPoint{in.OP}
	if kind == 0 && t.R.Chance(45) {
		// jointly funded: a coin of somebody else (or a second wallet coin) next to the wallet's, in
		// either order - the wallet's input is not always input 0
		var extra []*sim.Out
		for _, o := range v.SortedOuts() {
			if o.Spent || !o.HasHash || o.Value < 1000 || usedByPending[o.OP] || !v.Mature(o) || o.OP == in.OP || o.Class != sim.ClassStd {
				continue
			}
			if _, mine := owned[o.Hash]; !mine || t.R.Chance(20) {
				extra = append(extra, o)
			}
		}
		if len(extra) > 0 {
			x := extra[t.R.Intn(len(extra))]
			val += x.Value - x.Value/100
			if t.R.Chance(60) {
				ins = []wire.OutPoint{x.OP, in.OP}
			} else {
				ins = append(ins, x.OP)
			}
			t.Count("pending_transactions_with_two_inputs", 1)
		}
	}
	var outs []*wire.TxOut
	// first output to a wallet (so that it is relevant when a stranger pays), change to stranger
	h1, _ := wd.WalletHashPub()
	a := val * int64(t.R.Range(20, 80)) / 100
	script := sim.P2WSH(h1)
	if t.R.Chance(30) && (wd.Opt.Staking || wd.Opt.BindingOld) && in.Class != sim.ClassBinding {
		if wd.Opt.Staking && t.R.Bool() {
			script = sim.StakingScript(h1, wd.Opt.Frozen[t.R.Intn(len(wd.Opt.Frozen))])
		} else if wd.Opt.BindingOld {
			script = sim.BindingScript(h1, t.R.Bytes(20))
		}
	}
	outs = append(outs, wire.NewTxOut(a, script))
	outs = append(outs, wire.NewTxOut(val-a, sim.P2WSH(wd.StrangerPub())))
	if t.R.Bool() {
		outs[0], outs[1] = outs[1], outs[0] // the wallet's output (possibly a deposit) is not always output 0
	}
	return sim.Spend(ins, nil, outs, uint64(t.R.Uint64()|1))
}

func c09Case(t *core.T, maxSteps int) {
	cfg := worldCfg{Maturity: uint64(t.R.Range(2, 5)), Wallets: t.R.Range(1, 2), Staking: t.R.Chance(50), BindingOld: t.R.Chance(40), Gap: 20}
	wd := newWorld(t, cfg)
	defer closeWorld(t, wd)
	m := newPendModel(wd)
	wd.StrangerPub()
	steps := t.R.Range(maxSteps/2, maxSteps)
	var shape []string
	// seed chain
	for i := 0; i < cfg.maturityBlocks(); i++ {
		b, err := wd.Extend(1)
		if err != nil {
			t.Fatalf("extend: %v", err)
		}
		wd.W.Deliver(b)
	}
	if !c09Check(t, wd, m, "after the seed chain") {
		return
	}
	for s := 0; s < steps && !t.Failed(); s++ {
		v, err := sim.ViewOfChain(wd.N.BestChain())
		if err != nil {
			t.Fatalf("view: %v", err)
		}
		switch t.R.Pick(30, 25, 14, 6) {
		case 0: // receive a new pending transaction (or a duplicate)
			var tx *wire.MsgTx
			if len(m.ord) > 0 && t.R.Chance(15) {
				tx = m.P[m.ord[t.R.Intn(len(m.ord))]]
				wd.Logf("recv duplicate %s", tx.TxHash().String()[:10])
				shape = append(shape, "d")
			} else {
				tx = c09NewPending(t, wd, m, v)
				if tx == nil {
					continue
				}
				if m.relevant(tx, v) {
					m.add(tx)
				}
				wd.Logf("recv %s in%v", tx.TxHash().String()[:10], tx.TxIn[0].PreviousOutPoint)
				shape = append(shape, "r")
			}
			wd.W.DeliverTx(tx)
		case 1: // extend: confirm some pending, conflict some, random others
			var carry []*wire.MsgTx
			for _, tx := range m.ordered() {
				switch t.R.Pick(5, 2, 5) {
				case 0:
					carry = append(carry, tx)
				case 1:
					// conflicting spend of its first wallet-coin input that is on chain
					owned := wd.AllOwned()
					for _, in := range tx.TxIn {
						if o := v.Outs[in.PreviousOutPoint]; o != nil && !o.Spent && o.HasHash {
							if _, mine := owned[o.Hash]; mine {
								ds := sim.Spend([]wire.OutPoint{in.PreviousOutPoint}, nil, []*wire.TxOut{wire.NewTxOut(o.Value-o.Value/40, sim.P2WSH(wd.StrangerPub()))}, t.R.Uint64()|1)
								carry = append(carry, ds)
								wd.Logf("(block will double-spend pending %s)", tx.TxHash().String()[:10])
								break
							}
						}
					}
				}
			}
			b, err := wd.BuildBlockAvoiding(wd.N.Tip(), carry, t.R.Intn(2), m.inputsOf())
			if err != nil {
				t.Fatalf("build: %v", err)
			}
			if err := wd.N.Extend(b); err != nil {
				t.Fatalf("extend: %v", err)
			}
			wd.Logf("extend %s", wd.BlockDesc(b))
			wd.W.Deliver(b)
			v2, _ := sim.ViewOfChain(wd.N.BestChain())
			// transactions of the block that are relevant become known (not pending)
			m.settle(v2, nil, nil)
			shape = append(shape, "e")
		case 2: // reorg
			best := wd.N.BestChain()
			height := len(best) - 1
			if height < 3 {
				continue
			}
			depth := t.R.Range(1, 3)
			if depth > height-1 {
				depth = height - 1
			}
			old := best[len(best)-depth:]
			var returned []*wire.MsgTx
			var deadCB []*wire.MsgTx
			for _, b := range old {
				for _, tx := range b.Msg.Transactions {
					if blockchain.IsCoinBaseTx(tx) {
						deadCB = append(deadCB, tx)
					} else if m.relevant(tx, v) {
						returned = append(returned, tx)
					}
				}
			}
			nb, _, err := wd.ForkAvoiding(depth, depth+t.R.Range(0, 2), t.R.Intn(2), m.inputsOf())
			if err != nil {
				t.Fatalf("fork: %v", err)
			}
			if nb == nil {
				continue
			}
			wd.W.Deliver(nb)
			v2, _ := sim.ViewOfChain(wd.N.BestChain())
			m.settle(v2, returned, deadCB)
			shape = append(shape, fmt.Sprintf("f%d", depth))
		case 3:
			if !wd.Settle() {
				return
			}
			k := wd.Keys[t.R.Intn(len(wd.Keys))]
			if _, err := wd.IssueAddress(k, 0); err != nil {
				wd.Logf("NewAddress refused: %v", err)
			}
		}
		if !c09Check(t, wd, m, fmt.Sprintf("after step %d", s)) {
			break
		}
	}
	multi := 0
	for _, n := range m.exp {
		if n >= 2 {
			multi++
		}
	}
	t.Count("txs_with_2plus_of_confirm_conflict_rollback", multi)
	if multi > 0 {
		t.Nontrivial(strings.Join(shape, "") + "|" + strings.Join(wd.Disp, ","))
	}
	ops := wd.Ops
	if len(ops) > 30 {
		ops = ops[:30]
	}
	t.Sample(map[string]interface{}{"config": cfg, "shape": strings.Join(shape, " "), "first_ops": ops})
}

func (c worldCfg) maturityBlocks() int { return int(c.Maturity) + 3 }

func (m *pendModel) spentByUnspecified(op wire.OutPoint) bool {
	for _, tx := range m.U {
		for _, in := range tx.TxIn {
			if in.PreviousOutPoint == op {
				return true
			}
		}
	}
	return false
}

func (m *pendModel) inputsOf() map[wire.OutPoint]bool {
	f := map[wire.OutPoint]bool{}
	for _, tx := range m.P {
		for _, in := range tx.TxIn {
			f[in.PreviousOutPoint] = true
		}
	}
	for _, tx := range m.U {
		for _, in := range tx.TxIn {
			f[in.PreviousOutPoint] = true
		}
	}
	return f
}

func init() {
	plans := map[string]struct{ cases, steps int }{
		"quick":    {cases: 200, steps: 40},
		"thorough": {cases: 5000, steps: 80},
	}
	core.Register(&core.Property{
		ID:    "C09",
		Level: "exploration",
		Rule: "case = seeded interleaving (lock-step) of unconfirmed deliveries (spends of wallet coins, payments to the wallet incl. staking/binding deposits, children of pending transactions, duplicates, second pending spenders of a wallet coin) with block connects that confirm some pending transactions and double-spend others, and reorganisations (depth 1-3) that un-confirm, re-mine, drop or double-spend them. " +
			"After every step: ledger equality (pending outputs not confirmed, confirmed ones applied once), raw pending bucket == model set and every record decodes to its transaction, raw pending-credit bucket == wallet-paying outputs of the model set, GetUtxo spent_by_unmined == (coin is input of a model-pending transaction), " +
			"AutoCreateRawTransaction never selects such a coin, pending staking/binding history entries == pending deposits, a mined unspent deposit is shown as being withdrawn exactly while a model-pending transaction spends it. distinct_nontrivial = distinct op shapes of cases in which some transaction experienced ≥2 of {confirm, conflict, rollback}",
		Assumptions: []string{"conflicts and dead parents are decisive only for wallet-owned coins (the generator never conflicts a pending transaction on a stranger's coin)", "the node never delivers two mutually conflicting unconfirmed transactions", "unconfirmed transactions are delivered only while the wallet is at the node's tip"},
		Cases:       func(tier string, seed int64) int { return plans[tier].cases },
		Run:         func(t *core.T) { c09Case(t, plans[t.Tier].steps) },
	})
}
