package props

import (
	"bytes"
	"crypto/sha256"
	"encoding/base64"
	"encoding/hex"
	"errors"
	"fmt"
	"io/ioutil"
	"path/filepath"
	"sort"
	"strings"
	"time"

	"github.com/massnetorg/mass-core/consensus"
	"github.com/massnetorg/mass-core/wire"
	"github.com/syndtr/goleveldb/leveldb"
	"github.com/syndtr/goleveldb/leveldb/opt"
	"massnet.org/mass-wallet/config"
	"massnet.org/mass-wallet/masswallet/keystore"
	"massnet.org/mass-wallet/masswallet/keystore/hdkeychain"

	"verifharness/core"
	"verifharness/sim"
)

// C05 — secrets are never stored or returned in clear; only the right passphrase unlocks.
// Monitors: (1) needle scan of the raw wallet database (every key/value through a goleveldb
// iterator after close AND the raw file bytes), of exported keystores and of every error string;
// (2) refused-attempt monitor: wrong passphrase ⇒ passphrase error, zero commits during the call,
// the right passphrase still works afterwards.

type needle struct {
	name string
	b    []byte
}

func needleVariants(name string, raw []byte) []needle {
	if len(raw) < 8 {
		return nil
	}
	hx := hex.EncodeToString(raw)
	return []needle{
		{name + " (raw)", raw},
		{name + " (hex)", []byte(hx)},
		{name + " (HEX)", []byte(strings.ToUpper(hx))},
		{name + " (base64)", []byte(strings.TrimRight(base64.StdEncoding.EncodeToString(raw), "="))},
		{name + " (base64url)", []byte(strings.TrimRight(base64.URLEncoding.EncodeToString(raw), "="))},
	}
}

// secretsOf derives every secret of a wallet: with the harness references and, because the
// wallet's own derivation deviates in the C14 known-finding class, with the repo's hdkeychain too.
func secretsOf(mnemonic, pass string, nAddr int) []needle {
	var ns []needle
	add := func(name string, raw []byte) { ns = append(ns, needleVariants(name, raw)...) }
	words := strings.Fields(mnemonic)
	add("mnemonic sentence", []byte(mnemonic))
	for i := 0; i+4 <= len(words); i++ {
		ns = append(ns, needle{fmt.Sprintf("mnemonic words %d-%d", i, i+3), []byte(strings.Join(words[i:i+4], " "))})
	}
	if ent, why := refBip39Decode(words); why == "" {
		add("entropy", ent)
	}
	seed := refBip39Seed(mnemonic, pass)
	add("seed", seed)
	add("private passphrase", []byte(pass))
	// reference chain
	if m, ok := refMaster(seed); ok {
		path := []uint32{0x80000000 + 44, 0x80000000 + config.ChainParams.HDCoinType, 0x80000000 + 1, 0}
		k := m
		names := []string{"master", "purpose", "coin", "account", "external branch"}
		for i := 0; ; i++ {
			add(names[i]+" private scalar", k.Priv[:])
			add(names[i]+" xprv", []byte(k.xprv()))
			if i == len(path) {
				break
			}
			c, ok := refCKDPriv(k, path[i])
			if !ok {
				break
			}
			k = c
		}
		for i := 0; i < nAddr; i++ {
			if c, ok := refCKDPriv(k, uint32(i)); ok {
				add(fmt.Sprintf("address %d private scalar", i), c.Priv[:])
			}
		}
	}
	// the wallet's own derivation
	if m, err := hdkeychain.NewMaster(seed, config.ChainParams); err == nil {
		k := m
		for _, i := range []uint32{0x80000000 + 44, 0x80000000 + config.ChainParams.HDCoinType, 0x80000000 + 1, 0} {
			c, err := k.Child(i)
			if err != nil {
				break
			}
			k = c
			if pk, err := k.ECPrivKey(); err == nil {
				add("derived private scalar (hdkeychain)", pk.Serialize())
			}
			add("derived xprv (hdkeychain)", []byte(k.String()))
		}
		for i := 0; i < nAddr; i++ {
			if c, err := k.Child(uint32(i)); err == nil {
				if pk, err := c.ECPrivKey(); err == nil {
					add(fmt.Sprintf("address %d private scalar (hdkeychain)", i), pk.Serialize())
				}
			}
		}
	}
	return ns
}

func scanBytes(hay []byte, ns []needle) string {
	for _, n := range ns {
		if len(n.b) >= 8 && bytes.Contains(hay, n.b) {
			return n.name
		}
	}
	return ""
}

// scanDB scans the closed wallet database directory.
func scanDB(dir string, ns []needle) (hit string, where string, kvs int, rawBytes int, err error) {
	files, _ := ioutil.ReadDir(dir)
	for _, f := range files {
		if f.IsDir() {
			continue
		}
		b, e := ioutil.ReadFile(filepath.Join(dir, f.Name()))
		if e != nil {
			continue
		}
		rawBytes += len(b)
		if h := scanBytes(b, ns); h != "" {
			return h, "raw file " + f.Name(), kvs, rawBytes, nil
		}
	}
	db, e := leveldb.OpenFile(dir, &opt.Options{ErrorIfMissing: true})
	if e != nil {
		return "", "", 0, rawBytes, e
	}
	defer db.Close()
	it := db.NewIterator(nil, nil)
	defer it.Release()
	for it.Next() {
		kvs++
		if h := scanBytes(it.Key(), ns); h != "" {
			return h, fmt.Sprintf("key %q", trunc(it.Key())), kvs, rawBytes, nil
		}
		if h := scanBytes(it.Value(), ns); h != "" {
			return h, fmt.Sprintf("value of key %q", trunc(it.Key())), kvs, rawBytes, nil
		}
	}
	return "", "", kvs, rawBytes, it.Error()
}

func isPassErr(err error) bool {
	return errors.Is(err, keystore.ErrInvalidPassphrase) || errors.Is(err, keystore.ErrIllegalPassphrase)
}

func c05Case(t *core.T, steps int, defaultScrypt bool) {
	sim.InitProcess(filepath.Join(filepath.Dir(t.Dir), "log"))
	consensus.CoinbaseMaturity = 3
	defer restoreConsensus()
	if defaultScrypt {
		old := keystore.DefaultScryptOptions
		keystore.DefaultScryptOptions = keystore.ScryptOptions{N: 262144, R: 8, P: 1}
		defer func() { keystore.DefaultScryptOptions = old }()
	}
	n, err := sim.NewNode(filepath.Join(t.Dir, "node"))
	if err != nil {
		t.Fatalf("node: %v", err)
	}
	defer n.Close()
	// the public-passphrase clause at keystore level (its own small database)
	c05PubPassPhase(t, filepath.Join(t.Dir, "ksdb"))
	if t.Failed() {
		return
	}
	pub := randPass(t.R)
	dir := filepath.Join(t.Dir, "wallet")
	var ops []string
	logf := func(f string, a ...interface{}) { ops = append(ops, fmt.Sprintf(f, a...)) }
	fail := func(sig, msg string) { t.Violate(sig, msg, map[string]interface{}{"ops": ops}) }
	w, err := sim.OpenWalletPub(n, dir, sim.NewConfig(20), pub)
	if err != nil {
		t.Fatalf("open: %v", err)
	}
	if err := w.Start(); err != nil {
		t.Fatalf("start: %v", err)
	}
	running := true
	stop := func() bool {
		if !running {
			return true
		}
		running = false
		if !w.Stop(30 * time.Second) {
			t.Inconclusive("Stop did not return (C20's subject)")
			return false
		}
		return true
	}
	defer stop()
	type wal struct {
		id, pass, mnemonic string
		nAddr              int
		removed            bool
	}
	var wallets []*wal
	var allNeedles []needle
	allNeedles = append(allNeedles, needleVariants("public passphrase", []byte(pub))...)
	var outputs [][]byte // exported JSON and error strings to scan
	newWallet := func() {
		pass := randPass(t.R)
		for pass == pub {
			pass = randPass(t.R)
		}
		id, mn, _, err := w.W.CreateWallet(pass, "c05", []int{128, 160, 192, 224, 256}[t.R.Intn(5)])
		if err != nil {
			t.Fatalf("create: %v", err)
		}
		wallets = append(wallets, &wal{id: id, pass: pass, mnemonic: mn})
		logf("CreateWallet -> %s", id)
	}
	newWallet()
	live := func() *wal {
		var c []*wal
		for _, x := range wallets {
			if !x.removed {
				c = append(c, x)
			}
		}
		if len(c) == 0 {
			return nil
		}
		return c[t.R.Intn(len(c))]
	}
	// refused: run op with a wrong passphrase; expects a passphrase error and zero commits.
	refused := func(name string, f func(p string) error, x *wal) {
		var others []string
		for _, y := range wallets {
			others = append(others, y.pass)
		}
		wr := wrongPassphrases(t.R, x.pass, others)
		p := wr[t.R.Intn(len(wr))]
		before := w.DB.Commits()
		t.Eval(1)
		err := f(p)
		after := w.DB.Commits()
		logf("%s(%s) with wrong passphrase %q -> %v", name, x.id[:8], p, err)
		if err == nil {
			fail("wrong-passphrase-accepted:"+name, fmt.Sprintf("%s accepted passphrase %q (right one differs)", name, p))
			return
		}
		outputs = append(outputs, []byte(err.Error()))
		if !isPassErr(err) {
			fail("wrong-passphrase-other-error:"+name, fmt.Sprintf("%s with a wrong passphrase failed with %q, not a passphrase error", name, err))
		}
		if after != before {
			fail("refused-attempt-writes:"+name, fmt.Sprintf("%s with a wrong passphrase committed %d database transaction(s)", name, after-before))
		}
		t.Count("refused_attempts", 1)
	}
	// afterSigning: whatever a signing call did (succeeded, failed half-way), the right passphrase
	// must still do everything, twice in a row, and a wrong one nothing
	afterSigning := func(x *wal, what string) {
		for round := 0; round < 2 && !t.Failed(); round++ {
			t.Eval(1)
			if _, err := w.W.ExportWallet(x.id, x.pass); err != nil {
				fail("right-passphrase-refused:export-after-signing", fmt.Sprintf("ExportWallet after %s: %v", what, err))
			}
			if m, _, err := w.W.GetMnemonic(x.id, x.pass); err != nil || m != x.mnemonic {
				fail("right-passphrase-refused:mnemonic-after-signing", fmt.Sprintf("GetMnemonic after %s: %q %v", what, m, err))
			}
		}
		if !t.Failed() {
			refused("ExportWallet", func(p string) error { _, err := w.W.ExportWallet(x.id, p); return err }, x)
			t.Count("signing_calls_followed_by_passphrase_checks", 1)
		}
	}
	for s := 0; s < steps && !t.Failed(); s++ {
		x := live()
		if x == nil {
			newWallet()
			continue
		}
		switch t.R.Pick(12, 18, 12, 10, 10, 14, 8, 6, 4, 14, 8) {
		case 0:
			if len(wallets) < 3 {
				newWallet()
			}
		case 1:
			if x.nAddr >= 18 {
				continue
			}
			if _, err := w.W.UseWallet(x.id); err != nil {
				fail("usewallet-failed", err.Error())
				return
			}
			if _, err := w.W.NewAddress(uint16(t.R.Intn(2))); err != nil {
				fail("newaddress-refused", err.Error())
				return
			}
			x.nAddr++
			logf("NewAddress(%s)", x.id[:8])
		case 2: // sign with right passphrase
			if x.nAddr == 0 {
				continue
			}
			w.W.UseWallet(x.id)
			list, err := w.W.GetAllAddressesWithPubkey()
			if err != nil || len(list) == 0 {
				continue
			}
			a := list[t.R.Intn(len(list))]
			if a.PubKey == nil {
				continue
			}
			h := sha256.Sum256([]byte(fmt.Sprint(s)))
			t.Eval(1)
			sig, err := w.W.SignHash(a.PubKey, h[:], []byte(x.pass))
			logf("SignHash(%s) right passphrase -> %v", x.id[:8], err)
			if err != nil || !sig.Verify(h[:], a.PubKey) {
				fail("right-passphrase-refused:sign", fmt.Sprintf("SignHash with the right passphrase: %v", err))
			} else if t.R.Bool() {
				afterSigning(x, "SignHash with the right passphrase")
			}
		case 3: // export with right passphrase
			t.Eval(1)
			js, err := w.W.ExportWallet(x.id, x.pass)
			logf("ExportWallet(%s) right passphrase -> %v", x.id[:8], err)
			if err != nil {
				fail("right-passphrase-refused:export", err.Error())
			} else {
				outputs = append(outputs, []byte(js))
			}
		case 4: // mnemonic with right passphrase
			t.Eval(1)
			m, _, err := w.W.GetMnemonic(x.id, x.pass)
			logf("GetMnemonic(%s) right passphrase -> %v", x.id[:8], err)
			if err != nil || m != x.mnemonic {
				fail("right-passphrase-refused:mnemonic", fmt.Sprintf("GetMnemonic with the right passphrase: %q %v", m, err))
			}
		case 5: // wrong attempts
			switch t.R.Intn(4) {
			case 0:
				refused("ExportWallet", func(p string) error { _, err := w.W.ExportWallet(x.id, p); return err }, x)
			case 1:
				refused("GetMnemonic", func(p string) error { _, _, err := w.W.GetMnemonic(x.id, p); return err }, x)
			case 2:
				refused("RemoveWallet", func(p string) error { return w.W.RemoveWallet(x.id, p) }, x)
			case 3:
				if x.nAddr == 0 {
					continue
				}
				w.W.UseWallet(x.id)
				list, err := w.W.GetAllAddressesWithPubkey()
				if err != nil || len(list) == 0 || list[0].PubKey == nil {
					continue
				}
				h := sha256.Sum256([]byte("x"))
				refused("SignHash", func(p string) error { _, err := w.W.SignHash(list[0].PubKey, h[:], []byte(p)); return err }, x)
			}
		case 6: // restart
			if !stop() {
				return
			}
			w, err = sim.OpenWalletPub(n, dir, sim.NewConfig(20), pub)
			if err != nil {
				fail("reopen-failed", err.Error())
				return
			}
			if err := w.Start(); err != nil {
				fail("restart-failed", err.Error())
				w.CloseUnstarted()
				return
			}
			running = true
			logf("-- restart")
		case 7: // wrong public passphrase must not open the database
			if !stop() {
				return
			}
			wrongPub := pub + "x"
			t.Eval(1)
			if w2, err := sim.OpenWalletPub(n, dir, sim.NewConfig(20), wrongPub); err == nil {
				w2.CloseUnstarted()
				fail("wrong-public-passphrase-accepted", "the wallet database opened with a wrong public passphrase")
				return
			}
			w, err = sim.OpenWalletPub(n, dir, sim.NewConfig(20), pub)
			if err != nil {
				fail("reopen-failed", err.Error())
				return
			}
			if err := w.Start(); err != nil {
				fail("restart-failed", err.Error())
				w.CloseUnstarted()
				return
			}
			running = true
			logf("-- wrong public passphrase refused, reopened")
		case 9: // a signing call that succeeds or fails half-way must leave the keystore as it found it
			if x.nAddr == 0 {
				continue
			}
			if _, err := w.W.UseWallet(x.id); err != nil {
				continue
			}
			var own, own2 *wire.OutPoint
			var ownVal, own2Val int64
			ownAddr, own2Addr := "", ""
			findOwn := func() {
				utxos, err := w.W.GetUtxo(nil)
				if err != nil {
					return
				}
				var addrs []string
				for a := range utxos {
					addrs = append(addrs, a)
				}
				sort.Strings(addrs)
				own, own2, own2Addr = nil, nil, ""
				for _, a := range addrs {
					for _, u := range utxos[a] {
						h, err := wire.NewHashFromStr(u.TxId)
						if err != nil {
							continue
						}
						if own == nil {
							own, ownVal, ownAddr = wire.NewOutPoint(h, u.Vout), u.Amount.IntValue(), a
						} else if own2 == nil || (own2Addr == ownAddr && a != ownAddr) {
							// the second coin preferably on another address (another key to derive)
							own2, own2Val, own2Addr = wire.NewOutPoint(h, u.Vout), u.Amount.IntValue(), a
						}
					}
				}
			}
			findOwn()
			if own == nil {
				// pay one of its addresses first
				list, err := w.W.GetAddresses(0)
				if err != nil || len(list) == 0 {
					continue
				}
				pick := t.R.Intn(len(list))
				h, err := sim.HashOfAddress(list[pick].Address)
				if err != nil {
					continue
				}
				hB := h
				if hb, err := sim.HashOfAddress(list[(pick+1)%len(list)].Address); err == nil {
					hB = hb // the second coin on another address when the wallet has two
				}
				cb := sim.Coinbase(n.Height()+1, t.R.Uint64(), []*wire.TxOut{wire.NewTxOut(int64(50000000+t.R.Intn(1000000)), sim.P2WSH(h)), wire.NewTxOut(int64(20000000+t.R.Intn(1000000)), sim.P2WSH(hB))})
				b := n.NewBlock(n.Tip(), []*wire.MsgTx{cb})
				if err := n.Extend(b); err != nil {
					t.Fatalf("extend: %v", err)
				}
				w.Deliver(b)
				w.Quiesce(30 * time.Second)
				logf("block %d pays %s", b.Height, x.id[:8])
				findOwn()
				if own == nil {
					continue
				}
			}
			if own2 == nil || own2Addr == ownAddr {
				// a coin on another address, when the wallet has one, so that a signing call has to
				// derive two keys
				if list, err := w.W.GetAddresses(0); err == nil {
					for _, a := range list {
						if a.Address == ownAddr {
							continue
						}
						if hh, err := sim.HashOfAddress(a.Address); err == nil {
							cb := sim.Coinbase(n.Height()+1, t.R.Uint64(), []*wire.TxOut{wire.NewTxOut(int64(30000000+t.R.Intn(1000000)), sim.P2WSH(hh))})
							b := n.NewBlock(n.Tip(), []*wire.MsgTx{cb})
							if err := n.Extend(b); err != nil {
								t.Fatalf("extend: %v", err)
							}
							w.Deliver(b)
							w.Quiesce(30 * time.Second)
							logf("block %d pays another address of %s", b.Height, x.id[:8])
							findOwn()
						}
						break
					}
				}
				if own == nil {
					continue
				}
			}
			var strangerH [32]byte
			copy(strangerH[:], t.R.Bytes(32))
			ins := []wire.OutPoint{*own}
			kind := "all inputs known"
			if t.R.Chance(65) {
				var bogus wire.Hash
				copy(bogus[:], t.R.Bytes(32))
				ins = append(ins, *wire.NewOutPoint(&bogus, uint32(t.R.Intn(2))))
				kind = "second input unknown"
			} else if own2 != nil {
				// two coins of the wallet: the second input's lookups happen while the key of the first
				// is still in memory
				ins = append(ins, *own2)
				ownVal += own2Val
				t.Count("signing_calls_with_two_wallet_inputs", 1)
				if own2Addr != ownAddr {
					t.Count("signing_calls_with_inputs_on_two_addresses", 1)
				}
			}
			tx := sim.Spend(ins, nil, []*wire.TxOut{wire.NewTxOut(ownVal/2, sim.P2WSH(strangerH))}, t.R.Uint64()|1)
			stripWitness(tx)
			t.Eval(1)
			_, serr := w.W.SignRawTx([]byte(x.pass), "ALL", tx)
			logf("SignRawTx(%s) right passphrase, %s -> %v", x.id[:8], kind, serr)
			if serr != nil {
				outputs = append(outputs, []byte(serr.Error()))
			}
			if kind == "all inputs known" && serr != nil {
				fail("right-passphrase-refused:signrawtx", serr.Error())
				continue
			}
			afterSigning(x, fmt.Sprintf("SignRawTx (%s, result %v)", kind, serr))
			if kind == "all inputs known" && !t.Failed() {
				// the same signing call again, parked in front of one of its own database reads (before,
				// between and after the signatures: the keystore is unlocked from the first signature to
				// the end of the call); while it is parked every wrong passphrase must still be refused by
				// the calls a concurrent client can make, and nothing may be written
				gate := &c17Gate{}
				w.DB.SetHook(gate.hook)
				sign := func() error {
					raw, err := tx.Bytes(wire.Packet)
					if err != nil {
						return err
					}
					cp := wire.NewMsgTx()
					if err := cp.SetBytes(raw, wire.Packet); err != nil {
						return err
					}
					stripWitness(cp)
					_, err = w.W.SignRawTx([]byte(x.pass), "ALL", cp)
					return err
				}
				gate.arm(1 << 30)
				derr := sign()
				nReads, _ := gate.disarm()
				if derr == nil && nReads > 0 {
					picks := map[int]bool{1: true, nReads: true}
					for len(picks) < 4 && len(picks) < nReads {
						picks[1+t.R.Intn(nReads)] = true
					}
					var js []int
					for j := range picks {
						js = append(js, j)
					}
					sort.Ints(js)
					for _, j := range js {
						if t.Failed() || x.removed {
							break
						}
						gate.arm(j)
						done := make(chan error, 1)
						go func() { done <- sign() }()
						parked := false
						select {
						case <-gate.held:
							parked = true
						case err := <-done:
							gate.disarm()
							if err != nil {
								fail("right-passphrase-refused:signrawtx", err.Error())
							}
						}
						if !parked {
							continue
						}
						blocked := false
						attempt := func(name string, f func(p string) error) {
							if blocked || t.Failed() {
								return
							}
							fin := make(chan struct{})
							go func() {
								defer close(fin)
								refused(name, f, x)
							}()
							select {
							case <-fin:
								t.Count("refused_attempts_while_a_signing_call_is_parked", 1)
							case <-time.After(3 * time.Second):
								// the attempt waits for a lock the parked call holds: protected; let both finish
								blocked = true
								t.Count("attempts_blocked_by_the_parked_signing_call", 1)
								close(gate.release)
								<-fin
							}
						}
						// half of the parked rounds see only the rightful export of a second client (a refused
						// signing attempt locks the keystore again on its way out, which would hide what the
						// export does to the keys the parked call still needs)
						onlyExport := t.R.Bool()
						if onlyExport {
							blocked = true // skips the refused attempts below; undone before the export
						}
						attempt("ExportWallet", func(p string) error { _, err := w.W.ExportWallet(x.id, p); return err })
						attempt("GetMnemonic", func(p string) error { _, _, err := w.W.GetMnemonic(x.id, p); return err })
						// a second client that signs (the same transaction, or a hash under the key of the
						// first input) with a wrong passphrase while this call has keys in memory
						attempt("SignRawTx", func(p string) error {
							raw, err := tx.Bytes(wire.Packet)
							if err != nil {
								return nil
							}
							cp := wire.NewMsgTx()
							if err := cp.SetBytes(raw, wire.Packet); err != nil {
								return nil
							}
							stripWitness(cp)
							out, err := w.W.SignRawTx([]byte(p), "ALL", cp)
							if err == nil && out == nil {
								return fmt.Errorf("no error and no bytes")
							}
							return err
						})
						if list, lerr := w.W.GetAllAddressesWithPubkey(); lerr == nil {
							for _, a := range list {
								if a.Address == ownAddr && a.PubKey != nil {
									pk := a.PubKey
									attempt("SignHash", func(p string) error {
										h := sha256.Sum256([]byte("c05 second client"))
										_, err := w.W.SignHash(pk, h[:], []byte(p))
										return err
									})
									break
								}
							}
						}
						attempt("RemoveWallet", func(p string) error {
							err := w.W.RemoveWallet(x.id, p)
							if err == nil {
								x.removed = true
							}
							return err
						})
						// a second client that exports with the RIGHT passphrase: allowed, and the signing call
						// must not suffer from it
						if onlyExport {
							blocked = false
						}
						if !blocked && !t.Failed() && !x.removed {
							fin := make(chan error, 1)
							go func() {
								_, err := w.W.ExportWallet(x.id, x.pass)
								fin <- err
							}()
							select {
							case err := <-fin:
								t.Eval(1)
								if err != nil {
									fail("right-passphrase-refused:export-while-signing", fmt.Sprintf("ExportWallet with the right passphrase while a signing call is in flight: %v", err))
								}
								t.Count("exports_with_the_right_passphrase_while_a_signing_call_is_parked", 1)
							case <-time.After(3 * time.Second):
								blocked = true
								t.Count("attempts_blocked_by_the_parked_signing_call", 1)
								close(gate.release)
								<-fin
							}
						}
						if !blocked {
							close(gate.release)
						}
						if err := <-done; err != nil && !x.removed {
							fail("right-passphrase-refused:signrawtx", fmt.Sprintf("the parked signing call fails after concurrent refused attempts: %v", err))
						}
						gate.disarm()
						logf("SignRawTx(%s) parked at database read %d of %d while wrong passphrases are tried", x.id[:8], j, nReads)
						t.Count("signing_calls_parked", 1)
					}
				}
				w.DB.SetHook(nil)
				if !t.Failed() && !x.removed {
					afterSigning(x, "a signing call overlapped by refused attempts")
				}
			}
		case 10: // the wallet leaves and comes back: export, remove, import (keystore or mnemonic)
			t.Eval(1)
			js, err := w.W.ExportWallet(x.id, x.pass)
			if err != nil {
				fail("right-passphrase-refused:export", err.Error())
				continue
			}
			outputs = append(outputs, []byte(js))
			if err := w.W.RemoveWallet(x.id, x.pass); err != nil {
				fail("right-passphrase-refused:remove", err.Error())
				continue
			}
			if !w.WorkerIdle(60 * time.Second) {
				t.Inconclusive("removal did not finish")
				return
			}
			route := "keystore"
			var ierr error
			var gotID string
			if t.R.Chance(60) {
				sum, e := w.W.ImportWallet(js, x.pass)
				ierr = e
				if e == nil {
					gotID = sum.WalletID
				}
			} else {
				route = "mnemonic"
				sum, e := w.W.ImportWalletWithMnemonic(&keystore.WalletParams{Mnemonic: x.mnemonic, PrivatePassphrase: []byte(x.pass), ExternalIndex: uint32(x.nAddr), AddressGapLimit: 20})
				ierr = e
				if e == nil {
					gotID = sum.WalletID
				}
			}
			logf("%s exported, removed and imported again (%s) -> %v", x.id[:8], route, ierr)
			if ierr != nil || gotID != x.id {
				fail("reimport-failed", fmt.Sprintf("importing the %s of a removed wallet again: id %q (was %q), err %v", route, gotID, x.id, ierr))
				x.removed = true
				continue
			}
			if !w.WorkerIdle(60 * time.Second) {
				t.Inconclusive("re-import did not finish")
				return
			}
			// the re-imported wallet must do everything the original did: sign, reveal, export; and refuse
			if _, err := w.W.UseWallet(x.id); err != nil {
				fail("usewallet-failed", err.Error())
				continue
			}
			if list, err := w.W.GetAllAddressesWithPubkey(); err == nil {
				for _, a := range list {
					if a.PubKey == nil {
						continue
					}
					h := sha256.Sum256([]byte("after re-import"))
					t.Eval(1)
					sig, err := w.W.SignHash(a.PubKey, h[:], []byte(x.pass))
					if err != nil || !sig.Verify(h[:], a.PubKey) {
						fail("right-passphrase-refused:sign-after-reimport", fmt.Sprintf("SignHash with the right passphrase after the %s import: %v", route, err))
					}
					break
				}
			}
			if !t.Failed() {
				afterSigning(x, "a signature by the re-imported wallet")
				t.Count("wallets_removed_and_imported_again_"+route, 1)
			}
		case 8: // remove with the right passphrase (then the wallet is gone)
			if len(wallets) < 2 {
				continue
			}
			t.Eval(1)
			err := w.W.RemoveWallet(x.id, x.pass)
			logf("RemoveWallet(%s) right passphrase -> %v", x.id[:8], err)
			if err != nil {
				fail("right-passphrase-refused:remove", err.Error())
				continue
			}
			x.removed = true
			w.WorkerIdle(60 * time.Second)
		}
	}
	if t.Failed() {
		return
	}
	if !stop() {
		return
	}
	for _, x := range wallets {
		allNeedles = append(allNeedles, secretsOf(x.mnemonic, x.pass, x.nAddr+2)...)
	}
	t.Eval(1)
	hit, where, kvs, rawBytes, err := scanDB(dir, allNeedles)
	if err != nil {
		t.Fatalf("scan: %v", err)
	}
	if hit != "" {
		fail("secret-in-database", fmt.Sprintf("the wallet database contains the %s in clear (%s)", hit, where))
	}
	for _, o := range outputs {
		t.Eval(1)
		if h := scanBytes(o, allNeedles); h != "" {
			fail("secret-in-output", fmt.Sprintf("an exported keystore or an error message contains the %s in clear: %.120q", h, o))
		}
	}
	t.Count("db_keyvalues_scanned", kvs)
	t.Count("db_raw_bytes_scanned", rawBytes)
	t.Count("needles", len(allNeedles))
	t.Count("outputs_scanned", len(outputs))
	t.Nontrivial(fmt.Sprintf("w%d|kv%d|out%d", len(wallets), bucket(kvs), bucket(len(outputs))))
	if len(ops) > 20 {
		ops = ops[:20]
	}
	t.Sample(map[string]interface{}{"wallets": len(wallets), "default_scrypt": defaultScrypt, "kv_scanned": kvs, "first_ops": ops})
}

func init() {
	plans := map[string]struct{ cases, steps, slow int }{
		"quick":    {cases: 40, steps: 30, slow: 2},
		"thorough": {cases: 1500, steps: 40, slow: 30},
	}
	core.Register(&core.Property{
		ID:    "C05",
		Level: "exploration",
		Rule: "case = seeded operation sequence on 1-3 wallets (create, new address, sign, export, reveal mnemonic, wrong-passphrase attempts on export / mnemonic / remove / sign with near-miss, other-wallet, public, empty, over-long, NUL-suffixed and binary candidates, restart, reopen with a wrong public passphrase, removal). " +
			"After the sequence the database is closed and every key and value (goleveldb iterator) plus the raw file bytes, every exported keystore and every error string are searched for the secrets of every wallet " +
			"(mnemonic and all 4-word runs, entropy, seed, master/purpose/coin/account/branch extended private keys as base58 and raw scalars, per-address private scalars — derived with the harness references and with the repo's hdkeychain — private and public passphrases; each raw, hex, HEX, base64). " +
			"Every refused attempt must be a passphrase error with zero database commits during the call. The first cases of a tier run with the default scrypt cost. distinct_nontrivial = distinct (wallet count, scanned key/value bucket, output bucket)",
		Assumptions: []string{"zeroing of secrets in process memory is not observable from Go and is not checked", "the mnemonic returned by CreateWallet/GetMnemonic to the caller is the intended output, not a leak"},
		Cases:       func(tier string, seed int64) int { return plans[tier].cases },
		Run: func(t *core.T) {
			p := plans[t.Tier]
			c05Case(t, p.steps, t.Index < p.slow)
		},
	})
}
