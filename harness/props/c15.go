package props

import (
	"fmt"
	"math/big"
	"strconv"
	"strings"

	"github.com/massnetorg/mass-core/consensus"
	"massnet.org/mass-wallet/api"
	"massnet.org/mass-wallet/masswallet"

	"verifharness/core"
)

// C15 — amount strings and integer amounts convert exactly.
//
// Oracle: integer reference for formatting; three-way grammar for parsing
// (must-accept / must-reject / unspecified), see DESIGN.md §5 C15.

func refFormat(v int64) string {
	q, r := v/100000000, v%100000000
	if r == 0 {
		return strconv.FormatInt(q, 10)
	}
	f := fmt.Sprintf("%08d", r)
	f = strings.TrimRight(f, "0")
	return strconv.FormatInt(q, 10) + "." + f
}

const (
	clsAccept = iota
	clsReject
	clsUnspec
)

// classify returns the class of s and, for accept/unspec, the value it must have.
func c15Classify(s string, max uint64) (cls int, val uint64) {
	dots := 0
	for i := 0; i < len(s); i++ {
		c := s[i]
		if c == '.' {
			dots++
		} else if c < '0' || c > '9' {
			return clsReject, 0
		}
	}
	if dots > 1 {
		return clsReject, 0
	}
	ip, fp := s, ""
	if dots == 1 {
		i := strings.IndexByte(s, '.')
		ip, fp = s[:i], s[i+1:]
	}
	unspec := len(ip) == 0 || (dots == 1 && len(fp) == 0)
	fpT := strings.TrimRight(fp, "0")
	if len(fpT) > 8 {
		return clsReject, 0
	}
	ipT := strings.TrimLeft(ip, "0")
	if len(ipT) > 10 { // > 9 999 999 999 MASS is far above the supply
		return clsReject, 0
	}
	var iv uint64
	for i := 0; i < len(ipT); i++ {
		iv = iv*10 + uint64(ipT[i]-'0')
	}
	var fv uint64
	for i := 0; i < 8; i++ {
		fv *= 10
		if i < len(fpT) {
			fv += uint64(fpT[i] - '0')
		}
	}
	if iv > max/100000000 {
		return clsReject, 0
	}
	total := iv*100000000 + fv
	if total > max {
		return clsReject, 0
	}
	if unspec {
		return clsUnspec, total
	}
	return clsAccept, total
}

func shapeOf(s string) string {
	var b strings.Builder
	prev := byte(0)
	for i := 0; i < len(s); i++ {
		c := s[i]
		k := c
		switch {
		case c >= '1' && c <= '9':
			k = 'd'
		case c == '0':
			k = '0'
		case c >= 0x80 || c < 0x20:
			k = '?'
		}
		if k == prev && (k == 'd' || k == '0' || k == '?') {
			continue
		}
		b.WriteByte(k)
		prev = k
	}
	return b.String()
}

func c15CheckInt(t *core.T, v int64, max int64) {
	t.Eval(1)
	want := refFormat(v)
	for name, f := range map[string]func(int64) (string, error){"api": api.AmountToString, "masswallet": masswallet.AmountToString} {
		got, err := f(v)
		if v > max {
			if err == nil {
				t.Violatef("format-accepts-above-max:"+name, map[string]interface{}{"v": v, "got": got}, "%s.AmountToString(%d) above max supply formatted as %q", name, v, got)
			}
			continue
		}
		if err != nil || got != want {
			t.Violatef("format-mismatch:"+name, map[string]interface{}{"v": v, "got": got, "want": want, "err": fmt.Sprint(err)}, "%s.AmountToString(%d)=%q,%v want %q", name, v, got, err, want)
			continue
		}
	}
	if v <= max {
		a, err := api.StringToAmount(want)
		if err != nil || a.IntValue() != v {
			t.Violatef("roundtrip", map[string]interface{}{"v": v, "s": want}, "StringToAmount(%q)=%v,%v want %d", want, a, err, v)
		}
	}
	if v%100000000 != 0 {
		t.Nontrivial(fmt.Sprintf("int:digits=%d:frac=%d", len(strconv.FormatInt(v/100000000, 10)), len(strings.TrimRight(fmt.Sprintf("%08d", v%100000000), "0"))))
	}
}

func c15CheckStr(t *core.T, s string, max uint64) {
	t.Eval(1)
	cls, val := c15Classify(s, max)
	a, err := api.StringToAmount(s)
	w := map[string]interface{}{"s": s, "hex": fmt.Sprintf("%x", s)}
	switch cls {
	case clsAccept:
		if err != nil {
			t.Violatef("parse-rejects-wellformed:"+shapeOf(s), w, "StringToAmount(%q) rejected a well-formed numeral: %v", s, err)
		} else if a.UintValue() != val {
			t.Violatef("parse-wrong-value:"+shapeOf(s), w, "StringToAmount(%q)=%d want %d", s, a.UintValue(), val)
		}
	case clsReject:
		if err == nil {
			t.Violatef("parse-accepts-malformed:"+shapeOf(s), w, "StringToAmount(%q) accepted a malformed string as %d", s, a.UintValue())
		}
	case clsUnspec:
		if err == nil && a.UintValue() != val {
			t.Violatef("parse-wrong-value:"+shapeOf(s), w, "StringToAmount(%q)=%d, obvious reading is %d", s, a.UintValue(), val)
		}
	}
	sh := shapeOf(s)
	if sh != "d" && sh != "0" && sh != "" {
		t.Nontrivial(fmt.Sprintf("str:%d:%s", cls, sh))
	}
	t.Count([]string{"str_must_accept", "str_must_reject", "str_unspecified"}[cls], 1)
}

const c15Alphabet = "019.+-e_ "

func init() {
	type plan struct {
		intChunks, randChunks, randPer, strMaxLen, randStrChunks, randStrPer int
	}
	plans := map[string]plan{
		"quick":    {intChunks: 12, randChunks: 8, randPer: 125000, strMaxLen: 5, randStrChunks: 8, randStrPer: 40000},
		"thorough": {intChunks: 12, randChunks: 64, randPer: 800000, strMaxLen: 7, randStrChunks: 64, randStrPer: 400000},
	}
	strChunks := func(p plan) int {
		if p.strMaxLen <= 5 {
			return 1
		}
		n := 1
		for l := 6; l <= p.strMaxLen; l++ {
			n += 9 // one chunk per first character for each longer length
		}
		return n
	}
	apiCases := map[string]int{"quick": 3, "thorough": 40}
	core.Register(&core.Property{
		ID:    "C15",
		Level: "exploration",
		Rule: "cases = exhaustive integer ranges [0,2e6] ∪ [max-1e6,max+1e3] ∪ 10^k±1, seeded random integers, ALL strings up to the tier's length over {0,1,9,.,+,-,e,_,space}, " +
			"seeded random strings and mutated numerals; plus wallets holding coins of 2^26 MASS and more with non-round low digits whose amounts are read back through the API (GetUtxo, GetWalletBalance, GetAddressBalance: the API layer's own formatting helper); oracle = integer reference formatter + three-way grammar (must-accept/must-reject/unspecified). " +
			"distinct_nontrivial counts distinct input shapes (digit runs collapsed) containing a fraction or a non-digit, and distinct (integer digits, fraction digits) pairs",
		Assumptions: []string{"max supply read from massutil.MaxAmount()", "strings \"\", \".\", \"1.\", \".5\" are unspecified: either outcome accepted, value checked when accepted"},
		Cases: func(tier string, seed int64) int {
			p := plans[tier]
			return p.intChunks + 1 + p.randChunks + strChunks(p) + p.randStrChunks + apiCases[tier]
		},
		Run: func(t *core.T) {
			p := plans[t.Tier]
			if t.Index >= p.intChunks+1+p.randChunks+strChunks(p)+p.randStrChunks {
				// the strings the API layer hands out for very large coins (its own formatting helper)
				c15ApiCase(t)
				return
			}
			max := int64(consensus.MaxMass * consensus.MaxwellPerMass)
			umax := uint64(max)
			i := t.Index
			switch {
			case i < 8: // [0, 2e6] in 8 chunks
				lo, hi := int64(i)*250000, int64(i+1)*250000
				if i == 7 {
					hi++
				}
				for v := lo; v < hi; v++ {
					c15CheckInt(t, v, max)
				}
				t.Sample(map[string]interface{}{"kind": "exhaustive-int-range", "lo": lo, "hi": hi - 1})
				return
			case i < 12: // [max-1e6, max+1e3] in 4 chunks
				j := int64(i - 8)
				lo, hi := max-1000000+j*250250, max-1000000+(j+1)*250250
				if j == 3 {
					hi = max + 1001
				}
				for v := lo; v < hi; v++ {
					c15CheckInt(t, v, max)
				}
				t.Sample(map[string]interface{}{"kind": "exhaustive-int-range-around-max", "lo": lo, "hi": hi - 1})
				return
			case i == 12:
				pw := int64(1)
				for k := 0; k <= 18; k++ {
					for _, d := range []int64{-1, 0, 1} {
						v := pw + d
						if v >= 0 {
							c15CheckInt(t, v, max)
						}
					}
					pw *= 10
				}
				for _, v := range []int64{max, max + 1, max - 1, 1<<62 + 5, 1<<63 - 1} {
					c15CheckInt(t, v, max)
				}
				// numerals whose value × 10^8 wraps a 63- or 64-bit register to something small: integral
				// parts just above k·2^63/10^8 and k·2^64/10^8 (all far beyond the supply: must be refused),
				// alone and with fractions
				two63 := new(big.Int).Lsh(big.NewInt(1), 63)
				two64 := new(big.Int).Lsh(big.NewInt(1), 64)
				e8 := big.NewInt(100000000)
				wraps := 0
				for _, m := range []*big.Int{two63, two64} {
					for k := int64(1); k <= 40; k++ {
						base := new(big.Int).Mul(m, big.NewInt(k))
						base.Div(base, e8)
						for d := int64(-3); d <= 40; d++ {
							ip := new(big.Int).Add(base, big.NewInt(d)).String()
							c15CheckStr(t, ip, umax)
							c15CheckStr(t, ip+".5", umax)
							c15CheckStr(t, ip+".00000001", umax)
							wraps += 3
						}
						for n := 0; n < 60; n++ {
							ip := new(big.Int).Add(base, big.NewInt(int64(t.R.Intn(3000000)))).String()
							c15CheckStr(t, ip, umax)
							wraps++
						}
					}
				}
				t.Count("numerals_near_register_wraparound", wraps)
				return
			}
			i -= 13
			if i < p.randChunks {
				for n := 0; n < p.randPer; n++ {
					var v int64
					switch t.R.Intn(4) {
					case 0:
						v = int64(t.R.Uint64() % uint64(max+1))
					case 1:
						v = int64(t.R.Uint64() % 100000000000)
					case 2: // few significant digits
						v = int64(t.R.Uint64()%1000) * pow10(t.R.Intn(15))
					default:
						v = int64(t.R.Uint64()%uint64(max+1)) / pow10(t.R.Intn(8)) * pow10(t.R.Intn(8))
					}
					if v < 0 {
						v = -v
					}
					c15CheckInt(t, v, max)
				}
				return
			}
			i -= p.randChunks
			sc := strChunks(p)
			if i < sc {
				if i == 0 {
					// all strings of length <= 5 (incl. empty)
					var rec func(prefix []byte, l int)
					rec = func(prefix []byte, l int) {
						c15CheckStr(t, string(prefix), umax)
						if l == 5 {
							return
						}
						for k := 0; k < len(c15Alphabet); k++ {
							rec(append(prefix, c15Alphabet[k]), l+1)
						}
					}
					rec(nil, 0)
					t.Sample(map[string]interface{}{"kind": "exhaustive-strings", "alphabet": c15Alphabet, "max_len": 5})
					return
				}
				// longer lengths: length L, first char fixed
				L := 6 + (i-1)/9
				first := c15Alphabet[(i-1)%9]
				buf := make([]byte, L)
				buf[0] = first
				var rec func(pos int)
				rec = func(pos int) {
					if pos == L {
						c15CheckStr(t, string(buf), umax)
						return
					}
					for k := 0; k < len(c15Alphabet); k++ {
						buf[pos] = c15Alphabet[k]
						rec(pos + 1)
					}
				}
				rec(1)
				return
			}
			// random strings & mutated numerals
			for n := 0; n < p.randStrPer; n++ {
				var s string
				switch t.R.Intn(4) {
				case 0: // random over extended alphabet
					l := t.R.Intn(25)
					b := make([]byte, l)
					ext := "0123456789..++--eE_ ,xX\t\n\x00\xff'\""
					for k := range b {
						b[k] = ext[t.R.Intn(len(ext))]
					}
					s = string(b)
				case 1: // valid numeral
					s = refFormat(int64(t.R.Uint64() % uint64(max+1)))
					if t.R.Bool() {
						s = strings.Repeat("0", t.R.Intn(4)) + s
					}
					if t.R.Bool() && strings.Contains(s, ".") {
						s += strings.Repeat("0", t.R.Intn(12))
					}
				case 2: // mutated numeral: insert / replace one byte
					s = refFormat(int64(t.R.Uint64() % uint64(max+1)))
					ext := "+-eE_ .,x\x00\xff9"
					pos := t.R.Intn(len(s) + 1)
					c := string(ext[t.R.Intn(len(ext))])
					if t.R.Bool() || pos == len(s) {
						s = s[:pos] + c + s[pos:]
					} else {
						s = s[:pos] + c + s[pos+1:]
					}
				default: // boundary numerals: many digits, precision 7..10, around max
					ip := strconv.FormatUint(t.R.Uint64()%(consensus.MaxMass*2), 10)
					fl := t.R.Range(0, 11)
					fb := make([]byte, fl)
					for k := range fb {
						fb[k] = byte('0' + t.R.Intn(10))
					}
					s = ip
					if fl > 0 || t.R.Chance(10) {
						s += "." + string(fb)
					}
				}
				c15CheckStr(t, s, umax)
				if n == 0 {
					t.Sample(map[string]interface{}{"kind": "random-string", "s": s})
				}
			}
		},
	})
}

func pow10(n int) int64 {
	p := int64(1)
	for i := 0; i < n; i++ {
		p *= 10
	}
	return p
}
