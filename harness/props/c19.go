package props

import (
	"context"
	"encoding/hex"
	"fmt"
	"reflect"
	"runtime/debug"
	"sort"
	"strings"
	"sync"
	"time"
	"unicode/utf8"

	"github.com/massnetorg/mass-core/consensus"
	"github.com/massnetorg/mass-core/massutil"
	"github.com/massnetorg/mass-core/wire"
	"massnet.org/mass-wallet/config"
	"massnet.org/mass-wallet/masswallet"
	"massnet.org/mass-wallet/masswallet/keystore"

	"verifharness/core"
	"verifharness/sim"
)

// C19 — no client request or chain event can crash or silently stall the wallet.
//
// Monitor: every handler method of api.APIServer that does not need a live consensus node, and the
// exported WalletManager methods the handlers are built on, are called by reflection under
// recover() with requests drawn from a field-name aware grammar (valid values taken from the
// current wallet state, boundary values, values of another category, malformed strings), in a
// session whose wallet state keeps changing (no wallet selected, several wallets, coins pending /
// spent / immature / staked / bound, an import or a removal held half-way, after a restart). Between
// requests the node delivers blocks and unconfirmed transactions with every output class consensus
// lets through (plain, staking, binding, null-data, zero value, hundreds of outputs, same-block
// chains, double spends, reorganisations). After every event the follower must have consumed it
// (handle.loop count), SyncedTo must equal the node's height and no goroutine may have died
// (logrus exit-handler monitor). A request that does not return within the watchdog is a violation
// only with a structural deadlock in the goroutine dump.

type c19Pools struct {
	walletIDs, addrs, staking, foreign, txids, rawHex, keystores, mnemonics, passes, pubkeys, targets []string
	tip                                                                                               uint64
}

var c19Junk = []string{"", " ", "0", "-1", "1", "00", "0x00", "zz", "1e400", "NaN", "-0.00000001", "0.000000001", "92233720368.54775807", "92233720368.54775808",
	"ms1", "ms1q", "ms1qqqqqqqqqqqqqqqqqqqqqqqqqqqqqqqqqqqqqqqqqqqqqqqqqqqqqqqqqqqqqqqqqqqqq", "bc1qw508d6qejxtdg4y5r3zarvary0c5xw7kv8f3t4",
	"\x00", "a\x00b", "ß∂ƒ©˙∆", "𝔘𝔫𝔦𝔠𝔬𝔡𝔢", "../../etc/passwd", "{}", "[]", "null", "{\"crypto\":{}}", "%s%s%s%n", "ALL", "NONE", "SINGLE", "ALL|ANYONECANPAY", "all",
	strings.Repeat("a", 41), strings.Repeat("f", 63), strings.Repeat("f", 64), strings.Repeat("f", 65), strings.Repeat("0", 64), strings.Repeat("A", 300)}

func (p *c19Pools) category(name string) []string {
	n := strings.ToLower(name)
	switch {
	case strings.Contains(n, "walletid"):
		return p.walletIDs
	case strings.Contains(n, "stakingaddress"):
		return p.staking
	case strings.Contains(n, "address"), strings.Contains(n, "subtractfee"), strings.Contains(n, "amounts.key"), strings.Contains(n, "holder"), strings.Contains(n, "binding"):
		return append(append([]string{}, p.addrs...), p.foreign...)
	case strings.Contains(n, "txid"):
		return p.txids
	case strings.Contains(n, "pass"):
		return p.passes
	case strings.Contains(n, "hex"), strings.Contains(n, "rawtx"):
		return p.rawHex
	case strings.Contains(n, "keystore"):
		return p.keystores
	case strings.Contains(n, "mnemonic"):
		return p.mnemonics
	case strings.Contains(n, "amount"), strings.Contains(n, "fee"):
		return []string{"0", "0.00000001", "0.0001", "0.01", "1", "1.5", "10", "1000", "206438400", "206438400.00000001", "00.1", ".5", "5.", "1e2", " 1", "1 "}
	case strings.Contains(n, "flags"):
		return []string{"ALL", "NONE", "SINGLE", "ALL|ANYONECANPAY", "NONE|ANYONECANPAY", "SINGLE|ANYONECANPAY", ""}
	case strings.Contains(n, "type"):
		return []string{"", "all", "withdrawn", "excludeWithdrawn", "0", "1"}
	case strings.Contains(n, "targets"):
		return p.targets
	case strings.Contains(n, "payload"), strings.Contains(n, "pubkey"), strings.Contains(n, "target"):
		return p.pubkeys
	case strings.Contains(n, "remarks"):
		return []string{"", "r", "remarks with spaces", strings.Repeat("r", 300)}
	}
	return nil
}

type c19Gen struct {
	r *core.Rand
	p *c19Pools
}

func (g *c19Gen) str(name string) string {
	cat := g.p.category(name)
	roll := g.r.Intn(100)
	var s string
	switch {
	case roll < 62 && len(cat) > 0:
		s = cat[g.r.Intn(len(cat))]
	case roll < 72:
		// a value of another category
		all := [][]string{g.p.walletIDs, g.p.addrs, g.p.staking, g.p.txids, g.p.passes, g.p.rawHex, g.p.keystores, g.p.mnemonics, g.p.pubkeys}
		c := all[g.r.Intn(len(all))]
		if len(c) > 0 {
			s = c[g.r.Intn(len(c))]
		}
	case roll < 84 && len(cat) > 0:
		// a valid value, damaged
		s = cat[g.r.Intn(len(cat))]
		b := []byte(s)
		switch g.r.Intn(7) {
		case 0:
			if len(b) > 0 {
				i := g.r.Intn(len(b))
				b[i] = "0123456789abcdefqpzry9x8gf2tvdw0s3jn54khce6mua7l"[g.r.Intn(48)]
			}
		case 1:
			if len(b) > 0 {
				b = b[:g.r.Intn(len(b))]
			}
		case 2:
			b = append(b, b...)
		case 3:
			b = []byte(strings.ToUpper(s))
		case 4:
			b = append([]byte(" "), b...)
		case 5:
			if len(b) > 1 {
				i := g.r.Intn(len(b) - 1)
				b[i], b[i+1] = b[i+1], b[i]
			}
		case 6:
			b = append(b, '0')
		}
		s = string(b)
	default:
		s = c19Junk[g.r.Intn(len(c19Junk))]
	}
	if !utf8.ValidString(s) {
		s = strings.ToValidUTF8(s, "?") // proto3 strings are valid UTF-8 by the time a handler sees them
	}
	return s
}

func (g *c19Gen) uint(name string, bits int) uint64 {
	n := strings.ToLower(name)
	vals := []uint64{0, 1, 2, 3, 10, 100, 1 << 16, 1<<31 - 1, 1 << 31, 1<<32 - 1}
	if bits == 64 {
		vals = append(vals, 1<<32, 1<<63-1, 1<<63, 1<<64-1)
	}
	if strings.Contains(n, "frozen") {
		vals = append(vals, 2, 4, 9, 61440, 1474560, 1474561)
	}
	if strings.Contains(n, "height") && g.r.Chance(75) {
		// chain queries: heights around the node's chain
		return uint64(g.r.Intn(int(g.p.tip) + 3))
	}
	if strings.Contains(n, "vout") && g.r.Chance(60) {
		return uint64(g.r.Intn(4))
	}
	if strings.Contains(n, "locktime") && g.r.Chance(60) {
		return 0
	}
	if strings.Contains(n, "index") {
		// every index below an imported wallet's child number is derived: keep the accepted ones small
		if g.r.Chance(70) {
			return uint64(g.r.Intn(25))
		}
		return []uint64{100, 1000, 1<<20 + 1, 1<<31 - 1, 1 << 31, 1<<32 - 1}[g.r.Intn(6)]
	}
	if strings.Contains(n, "count") && g.r.Chance(60) {
		return uint64(g.r.Intn(20))
	}
	v := vals[g.r.Intn(len(vals))]
	if bits < 64 {
		v &= 1<<uint(bits) - 1
	}
	return v
}

func (g *c19Gen) int(name string, bits int) int64 {
	n := strings.ToLower(name)
	if strings.Contains(n, "version") || strings.Contains(n, "class") {
		return []int64{0, 0, 0, 1, 1, 2, -1, 10, 65535, 65536, 1<<31 - 1, -1 << 31}[g.r.Intn(12)]
	}
	if strings.Contains(n, "bitsize") {
		return []int64{128, 128, 160, 192, 224, 256, 0, 1, 127, 129, 512, -128, 1<<31 - 1}[g.r.Intn(13)]
	}
	if strings.Contains(n, "count") {
		// WalletManager.GetTxHistory(wanted int): the handler passes int(uint32)
		return []int64{0, 1, 2, 3, 10, 1000, 1<<31 - 1, 1<<32 - 1}[g.r.Intn(8)]
	}
	if strings.Contains(n, "confirm") {
		return []int64{0, 1, 1, 2, 6, 100, -1, 1<<31 - 1, -1 << 31}[g.r.Intn(9)]
	}
	return []int64{0, 1, -1, 2, 100, 1<<31 - 1, -1 << 31}[g.r.Intn(7)]
}

func (g *c19Gen) amount() massutil.Amount {
	vals := []int64{0, 1, 1000, 100000, 100000000, 5000000000, 20643840000000000}
	a, err := massutil.NewAmountFromInt(vals[g.r.Intn(len(vals))])
	if err != nil {
		return massutil.ZeroAmount()
	}
	return a
}

var (
	c19AmountT = reflect.TypeOf(massutil.ZeroAmount())
	c19MsgTxT  = reflect.TypeOf(&wire.MsgTx{})
	c19AddrT   = reflect.TypeOf((*massutil.Address)(nil)).Elem()
)

// fill sets v (addressable) to a generated value; ok=false if the type cannot be generated.
func (g *c19Gen) fill(v reflect.Value, name string, depth int) bool {
	t := v.Type()
	switch {
	case t == c19AmountT:
		v.Set(reflect.ValueOf(g.amount()))
		return true
	case t == c19MsgTxT:
		for try := 0; try < 6; try++ {
			if len(g.p.rawHex) == 0 {
				break
			}
			if tx, err := decodeTxHex(g.p.rawHex[g.r.Intn(len(g.p.rawHex))]); err == nil {
				v.Set(reflect.ValueOf(tx))
				return true
			}
		}
		tx := wire.NewMsgTx()
		var h wire.Hash
		copy(h[:], g.r.Bytes(32))
		tx.AddTxIn(wire.NewTxIn(wire.NewOutPoint(&h, uint32(g.r.Intn(3))), nil))
		tx.AddTxOut(wire.NewTxOut(int64(g.r.Intn(1000000)), g.r.Bytes(g.r.Intn(40))))
		v.Set(reflect.ValueOf(tx))
		return true
	case t == c19AddrT:
		// interface arguments are built by the API layer from validated strings: only decodable addresses
		pool := append(append([]string{}, g.p.addrs...), g.p.foreign...)
		for try := 0; try < 8 && len(pool) > 0; try++ {
			if a, err := massutil.DecodeAddress(pool[g.r.Intn(len(pool))], config.ChainParams); err == nil {
				v.Set(reflect.ValueOf(a))
				return true
			}
		}
		return false
	}
	switch t.Kind() {
	case reflect.String:
		v.SetString(g.str(name))
	case reflect.Bool:
		v.SetBool(g.r.Bool())
	case reflect.Int, reflect.Int32, reflect.Int64, reflect.Int16:
		x := g.int(name, t.Bits())
		if t.Bits() < 64 {
			lim := int64(1)<<uint(t.Bits()-1) - 1
			if x > lim {
				x = lim
			}
			if x < -lim-1 {
				x = -lim - 1
			}
		}
		v.SetInt(x)
	case reflect.Uint8, reflect.Uint16, reflect.Uint32, reflect.Uint64, reflect.Uint:
		if strings.Contains(strings.ToLower(name), "class") {
			v.SetUint([]uint64{0, 0, 1, 1, 2, 255, 65535}[g.r.Intn(7)] & (1<<uint(t.Bits()) - 1))
		} else {
			v.SetUint(g.uint(name, t.Bits()))
		}
	case reflect.Slice:
		if t.Elem().Kind() == reflect.Uint8 {
			v.SetBytes([]byte(g.str(name)))
			return true
		}
		n := []int{0, 1, 1, 1, 2, 3, 6}[g.r.Intn(7)]
		if g.r.Chance(1) {
			n = 300
		}
		s := reflect.MakeSlice(t, 0, n)
		for i := 0; i < n; i++ {
			e := reflect.New(t.Elem()).Elem()
			if !g.fill(e, name, depth+1) {
				return false
			}
			if i > 0 && g.r.Chance(12) {
				e.Set(s.Index(g.r.Intn(i))) // duplicates
			}
			s = reflect.Append(s, e)
		}
		v.Set(s)
	case reflect.Map:
		n := []int{0, 1, 1, 1, 2, 3}[g.r.Intn(6)]
		m := reflect.MakeMap(t)
		for i := 0; i < n; i++ {
			k := reflect.New(t.Key()).Elem()
			e := reflect.New(t.Elem()).Elem()
			if !g.fill(k, name+".key", depth+1) {
				return false
			}
			vn := name + ".value"
			if strings.Contains(strings.ToLower(name), "amount") {
				vn = "amount"
			}
			if t.Elem().Kind() != reflect.Struct || t.Elem() == c19AmountT {
				if !g.fill(e, vn, depth+1) {
					return false
				}
			}
			m.SetMapIndex(k, e)
		}
		v.Set(m)
	case reflect.Ptr:
		if t.Elem().Kind() != reflect.Struct || depth > 4 {
			return false
		}
		p := reflect.New(t.Elem())
		if !g.fill(p.Elem(), name, depth+1) {
			return false
		}
		v.Set(p)
	case reflect.Struct:
		for i := 0; i < t.NumField(); i++ {
			f := t.Field(i)
			if f.PkgPath != "" || strings.HasPrefix(f.Name, "XXX_") {
				continue
			}
			if !g.fill(v.Field(i), f.Name, depth+1) {
				return false
			}
		}
	default:
		return false
	}
	return true
}

// methods that only proxy to the consensus node (mempool, chain queries, peers): the simulator has
// no such node behind them
// no such node behind them. The chain-query handlers (GetBestBlock, GetBlockByHeight, GetTxStatus,
// GetRawTransaction, GetBlockStakingReward, GetNetworkBinding, CheckPoolPkCoinbase, CheckTargetBinding)
// are served by the simulator's chain database and an empty binding-state store and ARE exercised:
// their response builders (createBlockTx, createTxRawResult, createVinList, getTxType) are wallet code
// that walks chain data.
var c19NodeOnly = map[string]bool{"GetClientStatus": true, "SendRawTransaction": true, "QuitClient": false}

// c19WorkBound: a request still running after the watchdog AND after this many storage calls is not
// slow, it does unbounded work (logical criterion; the accepted requests of the grammar stay below
// 10 000 calls: import child numbers are ≤ 1000 or refused).
const c19WorkBound = 200000

type c19Call struct {
	Layer  string
	Method string
	Args   string
	Panic  string
	Stack  string
	Err    string
	Both   bool // neither response nor error
	Hung   bool
	Work   int64 // storage calls (wallet + node database) made while the request ran, if it hung
	Out    []reflect.Value
}

// invoke calls fn(args) under recover with a watchdog.
func c19Invoke(layer, method string, fn reflect.Value, args []reflect.Value, desc string, work func() int64) *c19Call {
	c := &c19Call{Layer: layer, Method: method, Args: desc}
	done := make(chan struct{})
	var out []reflect.Value
	go func() {
		defer close(done)
		defer func() {
			if r := recover(); r != nil {
				c.Panic = fmt.Sprint(r)
				c.Stack = string(debug.Stack())
			}
		}()
		out = fn.Call(args)
	}()
	defer func() { c.Out = out }()
	w0 := work()
	select {
	case <-done:
	case <-time.After(60 * time.Second):
		c.Hung = true
		c.Work = work() - w0
		return c
	}
	if c.Panic != "" {
		return c
	}
	// last result is the error
	if n := len(out); n > 0 {
		last := out[n-1]
		if last.Type().Implements(reflect.TypeOf((*error)(nil)).Elem()) {
			if !last.IsNil() {
				c.Err = last.Interface().(error).Error()
			} else if layer == "api" && n == 2 && out[0].Kind() == reflect.Ptr && out[0].IsNil() {
				c.Both = true
			}
		}
	}
	return c
}

func c19Desc(v reflect.Value) string {
	s := fmt.Sprintf("%+v", v.Interface())
	if v.Kind() == reflect.Ptr && !v.IsNil() && v.Elem().Kind() == reflect.Struct {
		s = fmt.Sprintf("%+v", v.Elem().Interface())
	}
	if len(s) > 700 {
		s = s[:700] + "…"
	}
	return s
}

func c19TopFrame(stack string) string {
	lines := strings.Split(stack, "\n")
	seenPanic := false
	for _, l := range lines {
		if strings.HasPrefix(l, "panic(") {
			seenPanic = true
			continue
		}
		if seenPanic && (strings.HasPrefix(l, "massnet.org/mass-wallet/") || strings.HasPrefix(l, "github.com/massnetorg/")) {
			f := strings.SplitN(l, "(", 2)[0]
			if i := strings.LastIndex(l, ")."); i >= 0 {
				f = l[:i+1] + "." + strings.SplitN(l[i+2:], "(", 2)[0]
			}
			return f
		}
	}
	return "?"
}

type c19Env struct {
	t     *core.T
	wd    *sim.World
	g     *c19Gen
	pools *c19Pools
	// worker gate (import / removal held half-way)
	gateMu             sync.Mutex
	holdAt             string
	held               chan struct{}
	release            chan struct{}
	holding            bool
	calls              int
	lastCall           string
	extraPass, extraMn []string
	pendingIDs         []string // txids of unconfirmed transactions delivered to the wallet
	abort              bool     // a request hung: the rest of the session would only wait for its locks
}

func (e *c19Env) pointFn(name string) {
	e.gateMu.Lock()
	if e.holdAt == "" || name != e.holdAt || e.holding {
		e.gateMu.Unlock()
		return
	}
	e.holding = true
	held, rel := e.held, e.release
	e.gateMu.Unlock()
	close(held)
	<-rel
}

func (e *c19Env) armHold(point string) {
	e.gateMu.Lock()
	e.holdAt, e.holding = point, false
	e.held, e.release = make(chan struct{}), make(chan struct{})
	e.gateMu.Unlock()
}

func (e *c19Env) releaseHold() {
	e.gateMu.Lock()
	if e.holdAt != "" {
		e.holdAt = ""
		close(e.release)
	}
	e.gateMu.Unlock()
}

func (e *c19Env) isHolding() bool {
	e.gateMu.Lock()
	defer e.gateMu.Unlock()
	return e.holding && e.holdAt != ""
}

// refresh rebuilds the value pools from the wallet's and the chain's current state.
func (e *c19Env) refresh() {
	p := e.pools
	wd := e.wd
	p.walletIDs, p.addrs, p.staking, p.passes, p.mnemonics = nil, nil, nil, []string{"", "wrongpass", "c19pass"}, nil
	if ws, err := wd.W.W.Wallets(); err == nil {
		for _, s := range ws {
			p.walletIDs = append(p.walletIDs, s.WalletID)
		}
	}
	for _, k := range wd.Keys {
		p.walletIDs = append(p.walletIDs, k.ID)
		p.passes = append(p.passes, k.Pass)
		if k.Mnemonic != "" {
			p.mnemonics = append(p.mnemonics, k.Mnemonic)
		}
		p.addrs = append(p.addrs, k.Std...)
		for _, h := range k.Hashes {
			p.staking = append(p.staking, sim.StakingAddr(h))
		}
	}
	p.passes = append(p.passes, e.extraPass...)
	p.mnemonics = append(p.mnemonics, e.extraMn...)
	p.foreign = []string{sim.StdAddr(wd.StrangerPub()), sim.StakingAddr(wd.StrangerPub())}
	v, err := sim.ViewOfChain(wd.N.BestChain())
	if err == nil {
		owned := wd.AllOwned()
		var mine, other []string
		for op, o := range v.Outs {
			if _, ok := owned[o.Hash]; ok && o.HasHash {
				mine = append(mine, op.Hash.String())
			} else {
				other = append(other, op.Hash.String())
			}
		}
		sort.Strings(mine)
		sort.Strings(other)
		if len(mine) > 40 {
			mine = mine[len(mine)-40:]
		}
		if len(other) > 8 {
			other = other[:8]
		}
		p.txids = append(append([]string{}, mine...), other...)
	}
	p.txids = append(p.txids, hex.EncodeToString(e.g.r.Bytes(32)))
	if len(e.pendingIDs) > 12 {
		e.pendingIDs = e.pendingIDs[len(e.pendingIDs)-12:]
	}
	p.txids = append(p.txids, e.pendingIDs...)
	if len(p.rawHex) > 24 {
		p.rawHex = p.rawHex[len(p.rawHex)-24:]
	}
	if len(p.keystores) > 6 {
		p.keystores = p.keystores[len(p.keystores)-6:]
	}
	p.tip = wd.N.Height()
	if len(p.targets) == 0 {
		// binding targets: old style (20-byte key hash), new style (22 bytes: hash, proof type, size), and
		// addresses of other classes
		for i := 0; i < 3; i++ {
			if a, err := massutil.NewAddressPubKeyHash(e.g.r.Bytes(20), config.ChainParams); err == nil {
				p.targets = append(p.targets, a.EncodeAddress())
			}
			tb := append(e.g.r.Bytes(20), byte(i%2), byte(24+2*i))
			if a, err := massutil.NewAddressBindingTarget(tb, config.ChainParams); err == nil {
				p.targets = append(p.targets, a.EncodeAddress())
			}
		}
		p.targets = append(p.targets, p.foreign...)
	}
	if len(p.pubkeys) == 0 {
		p.pubkeys = []string{"02" + strings.Repeat("11", 32), "03" + strings.Repeat("ab", 32), "04" + strings.Repeat("cd", 64), strings.Repeat("00", 33), "", "02"}
	}
}

// harvest keeps what a successful request produced or proved valid (raw transactions, keystores,
// mnemonics, the passphrase of a created/imported wallet) for later requests.
func (e *c19Env) harvest(req reflect.Value, out []reflect.Value) {
	if req.Kind() == reflect.Struct {
		if f := req.FieldByName("Passphrase"); f.IsValid() && f.Kind() == reflect.String && f.String() != "" {
			e.extraPass = append(e.extraPass, f.String())
			if len(e.extraPass) > 12 {
				e.extraPass = e.extraPass[1:]
			}
		}
	}
	if len(out) == 0 || out[0].Kind() != reflect.Ptr || out[0].IsNil() || out[0].Elem().Kind() != reflect.Struct {
		return
	}
	r := out[0].Elem()
	get := func(n string) string {
		if f := r.FieldByName(n); f.IsValid() && f.Kind() == reflect.String {
			return f.String()
		}
		return ""
	}
	if h := get("Hex"); h != "" {
		e.pools.rawHex = append(e.pools.rawHex, h)
	}
	if k := get("Keystore"); k != "" {
		e.pools.keystores = append(e.pools.keystores, k)
	}
	if m := get("Mnemonic"); m != "" {
		e.extraMn = append(e.extraMn, m)
		if len(e.extraMn) > 6 {
			e.extraMn = e.extraMn[1:]
		}
	}
}

func (e *c19Env) violate(c *c19Call) {
	w := e.wd.Witness()
	w["layer"], w["method"], w["request"] = c.Layer, c.Method, c.Args
	switch {
	case c.Panic != "":
		w["panic"], w["stack"] = c.Panic, c.Stack
		e.t.Violate("panic:"+c.Layer+"."+c.Method+":"+c19TopFrame(c.Stack), fmt.Sprintf("%s.%s panics (%s) on request %s", c.Layer, c.Method, c.Panic, c.Args), w)
	case c.Hung && c.Work > c19WorkBound:
		e.abort = true
		e.t.Recycle()
		w["storage_calls_so_far"] = c.Work
		e.t.Violate("request-unbounded-work:"+c.Layer+"."+c.Method, fmt.Sprintf("%s.%s has not answered after %d storage calls (the largest accepted request of the grammar needs a few thousand) and is still running, with the wallet's locks held: request %s", c.Layer, c.Method, c.Work, c.Args), w)
	case c.Hung:
		e.abort = true
		e.t.Recycle()
		ok, sum, full := c20Structural()
		w["goroutines"] = sum
		if ok {
			w["dump"] = full
			e.t.Violate("request-never-returns:"+c.Layer+"."+c.Method, fmt.Sprintf("%s.%s does not return on request %s", c.Layer, c.Method, c.Args), w)
		} else {
			e.t.Inconclusive(fmt.Sprintf("%s.%s did not return within 60 s (no structural deadlock in the dump)", c.Layer, c.Method))
		}
	case c.Both:
		e.t.Violate("no-response-no-error:"+c.Method, fmt.Sprintf("api.%s returns neither a response nor an error on request %s", c.Method, c.Args), w)
	}
}

// request issues one generated request to a random handler.
func (e *c19Env) request() {
	wd := e.wd
	api := reflect.ValueOf(wd.W.API)
	var names []string
	for i := 0; i < api.NumMethod(); i++ {
		m := api.Type().Method(i)
		if m.Type.NumIn() != 3 || m.Type.NumOut() != 2 || c19NodeOnly[m.Name] {
			continue
		}
		names = append(names, m.Name)
	}
	method := names[e.g.r.Intn(len(names))]
	if e.g.r.Chance(45) {
		// the transaction-building and signing handlers have the deepest code
		method = []string{"CreateRawTransaction", "AutoCreateTransaction", "CreateStakingTransaction", "CreateBindingTransaction", "SignRawTransaction", "GetTransactionFee",
			"CreatePoolPkCoinbaseTransaction", "TxHistory", "DecodeRawTransaction", "GetUtxo", "GetAddressBalance"}[e.g.r.Intn(11)]
	}
	m := api.MethodByName(method)
	req := reflect.New(m.Type().In(1).Elem())
	if !e.g.fill(req.Elem(), method, 0) {
		return
	}
	shape := "generated"
	if req.Elem().Kind() == reflect.Struct && req.Elem().NumField() > 0 && e.g.r.Chance(60) {
		e.repair(method, req.Elem())
		shape = "valid"
		if e.g.r.Chance(45) {
			// one field of the valid request replaced by a generated value
			var idx []int
			t := req.Elem().Type()
			for i := 0; i < t.NumField(); i++ {
				if t.Field(i).PkgPath == "" && !strings.HasPrefix(t.Field(i).Name, "XXX_") {
					idx = append(idx, i)
				}
			}
			if len(idx) > 0 {
				i := idx[e.g.r.Intn(len(idx))]
				e.g.fill(req.Elem().Field(i), t.Field(i).Name, 1)
				shape = "valid-but-" + t.Field(i).Name
			}
		}
	}
	desc := c19Desc(req)
	e.lastCall = "api." + method + " " + desc
	c := c19Invoke("api", method, m, []reflect.Value{reflect.ValueOf(context.Background()), req}, desc, func() int64 { return wd.W.DB.Seq() + wd.N.Wrap.TotalCalls() })
	if c.Panic == "" && !c.Hung && c.Err == "" {
		e.harvest(req.Elem(), c.Out)
	}
	e.calls++
	e.t.Eval(1)
	e.t.Observe("methods_called", method)
	outcome := "ok"
	if c.Err != "" {
		outcome = "error"
	}
	e.t.Observe("method_outcomes", method+":"+outcome)
	e.t.Count("requests_"+strings.SplitN(shape, "-", 2)[0]+"_"+outcome, 1)
	if c.Err != "" {
		e.t.Observe("distinct_errors", method+":"+firstN(c.Err, 60))
	}
	e.t.Nontrivial(method + ":" + outcome + ":" + firstN(c.Err, 60))
	if c.Panic != "" || c.Hung || c.Both {
		e.violate(c)
	}
}

// overlapMethods: handlers that work on the wallet in use (the removal of that wallet unsets it).
var c19OverlapMethods = []string{"GetWalletBalance", "GetAddressBalance", "GetUtxo", "GetAddresses", "TxHistory", "GetStakingHistory", "GetBindingHistory",
	"AutoCreateTransaction", "CreateRawTransaction", "CreateStakingTransaction", "CreateBindingTransaction", "GetTransactionFee", "SignRawTransaction",
	"CreateAddress", "ExportWallet", "GetWalletMnemonic", "CreatePoolPkCoinbaseTransaction"}

// overlap parks a valid request on the wallet in use in front of one of its own database reads
// (wallet-database interposer, as C17 does) and lets the background removal of that very wallet run
// to its end meanwhile - its last round unsets the wallet in use and drops its keystore from memory -
// then releases the request. The request must answer (response or error), not panic or hang. A
// removal that cannot be accepted while the request is parked (a lock of the request protects the
// section) is counted, the gate is opened and the removal goes on afterwards.
func (e *c19Env) overlap() {
	wd := e.wd
	t := e.t
	if e.isHolding() {
		return
	}
	// the victim is a wallet with addresses and history; it is imported again afterwards
	var cand []int
	for i, kk := range wd.Keys {
		if len(kk.Std) > 0 && kk.Mnemonic != "" {
			cand = append(cand, i)
		}
	}
	if len(cand) == 0 {
		return
	}
	ki := cand[e.g.r.Intn(len(cand))]
	k := wd.Keys[ki]
	if _, err := wd.W.W.UseWallet(k.ID); err != nil {
		return
	}
	dropKey := func() { wd.Keys = append(wd.Keys[:ki:ki], wd.Keys[ki+1:]...) }
	restore := func() {
		// the same wallet again (id is a function of mnemonic and passphrase), its issued addresses as index hint
		if !wd.W.WorkerIdle(60 * time.Second) {
			return
		}
		sum, err := wd.W.W.ImportWalletWithMnemonic(&keystore.WalletParams{Mnemonic: k.Mnemonic, PrivatePassphrase: []byte(k.Pass), Remarks: "again",
			ExternalIndex: uint32(len(k.Std)), AddressGapLimit: 20})
		if err != nil || sum.WalletID != k.ID {
			wd.Logf("re-import of %s failed: %v", k.ID[:10], err)
			return
		}
		wd.Keys = append(wd.Keys, k)
		wd.W.WorkerIdle(60 * time.Second)
		wd.Logf("re-imported %s", k.ID[:10])
	}
	api := reflect.ValueOf(wd.W.API)
	method := c19OverlapMethods[e.g.r.Intn(len(c19OverlapMethods))]
	m := api.MethodByName(method)
	if !m.IsValid() {
		return
	}
	req := reflect.New(m.Type().In(1).Elem())
	if !e.g.fill(req.Elem(), method, 0) {
		return
	}
	e.repair(method, req.Elem())
	desc := c19Desc(req)
	work := func() int64 { return wd.W.DB.Seq() + wd.N.Wrap.TotalCalls() }
	gate := &c17Gate{}
	wd.W.DB.SetHook(gate.hook)
	defer wd.W.DB.SetHook(nil)
	// dry run: number of database reads of this request
	gate.arm(1 << 30)
	c := c19Invoke("api", method, m, []reflect.Value{reflect.ValueOf(context.Background()), req}, desc, work)
	n, _ := gate.disarm()
	e.calls++
	t.Eval(1)
	if c.Panic != "" || c.Hung || c.Both {
		e.lastCall = "api." + method + " " + desc
		e.violate(c)
		return
	}
	if n == 0 {
		t.Count("overlap_request_without_database_read", 1)
		return
	}
	if method == "CreateAddress" || strings.HasPrefix(method, "Create") || method == "AutoCreateTransaction" {
		e.refresh()
	}
	j := 1 + e.g.r.Intn(n)
	gate.arm(j)
	e.lastCall = fmt.Sprintf("api.%s parked at database read %d of %d while RemoveWallet(%s) runs: %s", method, j, n, k.ID, desc)
	done := make(chan *c19Call, 1)
	go func() {
		done <- c19Invoke("api", method, m, []reflect.Value{reflect.ValueOf(context.Background()), req}, desc, work)
	}()
	select {
	case <-gate.held:
	case c = <-done:
		// fewer reads than in the dry run (state changed): nothing parked
		gate.disarm()
		if c.Panic != "" || c.Hung || c.Both {
			e.violate(c)
		}
		t.Count("overlap_request_ended_before_its_gate", 1)
		return
	}
	rm := make(chan error, 1)
	go func() { rm <- wd.W.W.RemoveWallet(k.ID, k.Pass) }()
	accepted, completed := false, false
	select {
	case err := <-rm:
		rm = nil
		if err == nil {
			accepted = true
			dropKey()
			completed = wd.W.WorkerIdle(15 * time.Second)
		}
	case <-time.After(2 * time.Second):
		t.Count("overlap_removal_blocked_by_the_parked_request", 1)
	}
	close(gate.release)
	c = <-done
	gate.disarm()
	e.calls++
	t.Eval(1)
	wd.Logf("overlap %s read %d/%d removal accepted=%v completed-while-parked=%v -> panic=%q err=%q", method, j, n, accepted, completed, c.Panic, firstN(c.Err, 60))
	if completed {
		t.Count("overlap_placements_removal_completed_while_parked", 1)
		t.Observe("overlap_methods", method)
		outcome := "ok"
		if c.Err != "" {
			outcome = "error"
		}
		t.Observe("overlap_outcomes", method+":"+outcome+":"+firstN(c.Err, 50))
		t.Nontrivial(fmt.Sprintf("overlap:%s:%d/%d", method, j, n))
	}
	if c.Panic != "" || c.Hung || c.Both {
		e.violate(c)
	}
	if rm != nil {
		select {
		case err := <-rm:
			if err == nil {
				accepted = true
				dropKey()
			}
		case <-time.After(60 * time.Second):
			t.Inconclusive("RemoveWallet did not return 60 s after the parked request was released")
			e.abort = true
			return
		}
	}
	if !wd.W.WorkerIdle(60 * time.Second) {
		ok, sum, full := c20Structural()
		if ok {
			w := wd.Witness()
			w["goroutines"], w["dump"] = sum, full
			t.Violate("removal-never-finishes-after-overlap", "the removal overlapped by "+e.lastCall+" never finishes; structural deadlock", w)
		} else {
			t.Inconclusive("removal not finished 60 s after an overlapped request")
		}
		e.abort = true
		return
	}
	if accepted {
		restore()
	}
}

// repair overwrites the fields of a generated request with values that are valid for the wallet
// in use (selecting one first if none is), so that the handlers get past their validation.
func (e *c19Env) repair(method string, req reflect.Value) {
	wd := e.wd
	r := e.g.r
	var k *sim.WalletKeys
	cur := wd.W.W.CurrentWallet()
	for _, kk := range wd.Keys {
		if kk.ID == cur {
			k = kk
		}
	}
	if k == nil && len(wd.Keys) > 0 && method != "UseWallet" {
		kk := wd.Keys[r.Intn(len(wd.Keys))]
		if _, err := wd.W.W.UseWallet(kk.ID); err == nil {
			k = kk
		}
	}
	own := func() string {
		if k != nil && len(k.Std) > 0 {
			return k.Std[r.Intn(len(k.Std))]
		}
		return sim.StdAddr(wd.StrangerPub())
	}
	anyAddr := func() string {
		if r.Bool() {
			return own()
		}
		return sim.StdAddr(wd.StrangerPub())
	}
	amount := func() string {
		return []string{"0.0001", "0.001", "0.01", "0.5", "1", "3", "12.5", "100"}[r.Intn(8)]
	}
	set := func(name string, v interface{}) {
		f := req.FieldByName(name)
		if f.IsValid() && f.CanSet() && reflect.TypeOf(v).AssignableTo(f.Type()) {
			f.Set(reflect.ValueOf(v))
		}
	}
	amounts := map[string]string{}
	for i := 0; i < r.Range(1, 2); i++ {
		amounts[anyAddr()] = amount()
	}
	set("Amounts", amounts)
	set("LockTime", uint64(0))
	set("Fee", []string{"", "", "0.0001", "0.01"}[r.Intn(4)])
	set("FromAddress", []string{"", own()}[r.Intn(2)])
	set("ChangeAddress", []string{"", own()}[r.Intn(2)])
	var sub []string
	if r.Chance(30) {
		for a := range amounts {
			sub = append(sub, a)
			break
		}
	}
	set("Subtractfeefrom", sub)
	set("HasBinding", r.Chance(30))
	if f := req.FieldByName("Inputs"); f.IsValid() {
		n := 0
		in := reflect.MakeSlice(f.Type(), 0, 3)
		if method == "CreateRawTransaction" || r.Chance(40) {
			if utxos, err := wd.W.W.GetUtxo(nil); err == nil {
				var all []*masswallet.UnspentDetail
				var addrs []string
				for a := range utxos {
					addrs = append(addrs, a)
				}
				sort.Strings(addrs)
				for _, a := range addrs {
					all = append(all, utxos[a]...)
				}
				for n < r.Range(1, 3) && len(all) > 0 {
					u := all[r.Intn(len(all))]
					el := reflect.New(f.Type().Elem().Elem())
					el.Elem().FieldByName("TxId").SetString(u.TxId)
					el.Elem().FieldByName("Vout").SetUint(uint64(u.Vout))
					in = reflect.Append(in, el)
					n++
				}
			}
			if r.Chance(20) && len(e.pendingIDs) > 0 {
				el := reflect.New(f.Type().Elem().Elem())
				el.Elem().FieldByName("TxId").SetString(e.pendingIDs[r.Intn(len(e.pendingIDs))])
				el.Elem().FieldByName("Vout").SetUint(uint64([]int{0, 1, 2, 3, 7, 300, 1<<32 - 1}[r.Intn(7)]))
				in = reflect.Append(in, el)
			}
			if r.Chance(25) && len(e.pools.txids) > 0 {
				el := reflect.New(f.Type().Elem().Elem())
				el.Elem().FieldByName("TxId").SetString(e.pools.txids[r.Intn(len(e.pools.txids))])
				el.Elem().FieldByName("Vout").SetUint(uint64(r.Intn(3)))
				in = reflect.Append(in, el)
			}
		}
		f.Set(in)
	}
	if k != nil && len(k.Hashes) > 0 {
		set("StakingAddress", sim.StakingAddr(k.Hashes[r.Intn(len(k.Hashes))]))
	}
	set("Amount", amount())
	set("FrozenPeriod", uint32([]uint64{consensus.MinFrozenPeriod, consensus.MinFrozenPeriod + 1, 100, 61440}[r.Intn(4)]))
	if f := req.FieldByName("Outputs"); f.IsValid() && f.Kind() == reflect.Slice {
		outs := reflect.MakeSlice(f.Type(), 0, 2)
		for i := 0; i < r.Range(1, 2); i++ {
			el := reflect.New(f.Type().Elem().Elem())
			if h := el.Elem().FieldByName("HolderAddress"); h.IsValid() {
				h.SetString(own())
			}
			if b := el.Elem().FieldByName("BindingAddress"); b.IsValid() {
				if t, err := massutil.NewAddressPubKeyHash(r.Bytes(20), config.ChainParams); err == nil {
					b.SetString(t.EncodeAddress())
				}
			}
			if a := el.Elem().FieldByName("Amount"); a.IsValid() {
				a.SetString(amount())
			}
			outs = reflect.Append(outs, el)
		}
		f.Set(outs)
	}
	if method == "CreatePoolPkCoinbaseTransaction" {
		set("FromAddress", own())
		set("Payload", "0001"+hex.EncodeToString(r.Bytes(r.Range(0, 200))))
	}
	if k != nil {
		set("Passphrase", k.Pass)
		if method != "RemoveWallet" || r.Chance(15) {
			set("WalletId", k.ID)
		}
	}
	if len(e.pools.rawHex) > 0 {
		set("RawTx", e.pools.rawHex[r.Intn(len(e.pools.rawHex))])
		set("Hex", e.pools.rawHex[r.Intn(len(e.pools.rawHex))])
	}
	set("Flags", []string{"ALL", "ALL", "NONE", "SINGLE", "ALL|ANYONECANPAY"}[r.Intn(5)])
	set("Address", []string{own(), own(), ""}[r.Intn(3)])
	var as []string
	for i := 0; i < r.Range(0, 3); i++ {
		as = append(as, own())
	}
	set("Addresses", as)
	set("Version", int32(r.Intn(2)))
	set("RequiredConfirmations", int32([]int{0, 1, 1, 2, 6}[r.Intn(5)]))
	set("Count", uint32([]int{0, 1, 5, 50}[r.Intn(4)]))
	set("Type", []string{"", "all"}[r.Intn(2)])
	if method == "CreateWallet" {
		set("Passphrase", "c19pass"+fmt.Sprint(r.Intn(100)))
		set("BitSize", int32([]int{128, 160, 192, 224, 256}[r.Intn(5)]))
		set("Remarks", "w")
	}
	if method == "ImportMnemonic" && len(e.pools.mnemonics) > 0 {
		set("Mnemonic", e.pools.mnemonics[r.Intn(len(e.pools.mnemonics))])
		set("ExternalIndex", uint32(r.Intn(30)))
		set("InternalIndex", uint32(r.Intn(5)))
	}
	if method == "ImportWallet" && len(e.pools.keystores) > 0 {
		set("Keystore", e.pools.keystores[r.Intn(len(e.pools.keystores))])
	}
}

func firstN(s string, n int) string {
	if len(s) > n {
		return s[:n]
	}
	return s
}

// collect runs a few well-formed requests whose results feed the pools (raw transactions to sign,
// keystores to import, mnemonics).
func (e *c19Env) collect() {
	wd := e.wd
	if len(wd.Keys) == 0 {
		return
	}
	k := wd.Keys[e.g.r.Intn(len(wd.Keys))]
	if _, err := wd.W.W.UseWallet(k.ID); err != nil {
		return
	}
	if ks, err := wd.W.W.ExportWallet(k.ID, k.Pass); err == nil {
		e.pools.keystores = append(e.pools.keystores, ks)
	}
	amt, _ := massutil.NewAmountFromInt(int64(10000 + e.g.r.Intn(1000000)))
	to := sim.StdAddr(wd.StrangerPub())
	if len(k.Std) > 0 && e.g.r.Bool() {
		to = k.Std[e.g.r.Intn(len(k.Std))]
	}
	if raw, _, err := wd.W.W.AutoCreateRawTransaction(map[string]massutil.Amount{to: amt}, 0, massutil.ZeroAmount(), "", "", nil); err == nil {
		e.pools.rawHex = append(e.pools.rawHex, raw)
		if tx, err := decodeTxHex(raw); err == nil {
			if e.g.r.Chance(60) {
				wd.W.W.ClearUsedUTXOMark(tx)
			}
			if signed, err := wd.W.W.SignRawTx([]byte(k.Pass), "ALL", tx); err == nil {
				e.pools.rawHex = append(e.pools.rawHex, hex.EncodeToString(signed))
				if e.g.r.Chance(35) {
					// the node relays the signed transaction back: coins pending
					var stx wire.MsgTx
					if stx.SetBytes(signed, wire.Packet) == nil {
						wd.W.DeliverTx(&stx)
						e.pendingIDs = append(e.pendingIDs, stx.TxHash().String())
						wd.Logf("recv own pending %s", stx.TxHash().String()[:10])
					}
				}
			}
		}
	}
	// a raw transaction whose input names a known transaction but an output index of the client's choosing
	if len(e.pools.txids) > 0 {
		if h, err := wire.NewHashFromStr(e.pools.txids[e.g.r.Intn(len(e.pools.txids))]); err == nil {
			idx := []uint32{0, 1, 2, 5, 1000, 1<<32 - 1}[e.g.r.Intn(6)]
			var sh [32]byte
			copy(sh[:], e.g.r.Bytes(32))
			htx := sim.Spend([]wire.OutPoint{*wire.NewOutPoint(h, idx)}, nil, []*wire.TxOut{wire.NewTxOut(int64(1000+e.g.r.Intn(100000)), sim.P2WSH(sh))}, e.g.r.Uint64()|1)
			if e.g.r.Bool() {
				stripWitness(htx)
			}
			if raw, err := htx.Bytes(wire.Packet); err == nil {
				e.pools.rawHex = append(e.pools.rawHex, hex.EncodeToString(raw))
			}
		}
	}
	// a block transaction as a foreign raw transaction
	best := wd.N.BestChain()
	b := best[e.g.r.Intn(len(best))]
	if txs := b.Msg.Transactions; len(txs) > 0 {
		if raw, err := txs[e.g.r.Intn(len(txs))].Bytes(wire.Packet); err == nil {
			e.pools.rawHex = append(e.pools.rawHex, hex.EncodeToString(raw))
		}
	}
}

// hostileTxs: transactions with every output class consensus lets through, built on view v.
func (e *c19Env) hostileTxs(v *sim.View, height uint64) []*wire.MsgTx {
	wd := e.wd
	r := e.g.r
	owned := wd.AllOwned()
	var mineOuts, otherOuts []*sim.Out
	for _, o := range v.SortedOuts() {
		if o.Spent || !o.HasHash || o.Value < 100000 || !v.Mature(o) || o.Class != sim.ClassStd {
			continue
		}
		if _, ok := owned[o.Hash]; ok {
			mineOuts = append(mineOuts, o)
		} else {
			otherOuts = append(otherOuts, o)
		}
	}
	key := func(l []*sim.Out) {
		sort.Slice(l, func(a, b int) bool {
			if l[a].OP.Hash != l[b].OP.Hash {
				return l[a].OP.Hash.String() < l[b].OP.Hash.String()
			}
			return l[a].OP.Index < l[b].OP.Index
		})
	}
	key(mineOuts)
	key(otherOuts)
	wh := func() [32]byte {
		if h, ok := wd.WalletHashPub(); ok {
			return h
		}
		return wd.StrangerPub()
	}
	var txs []*wire.MsgTx
	take := func(l *[]*sim.Out) *sim.Out {
		if len(*l) == 0 {
			return nil
		}
		o := (*l)[0]
		*l = (*l)[1:]
		return o
	}
	n := r.Range(1, 3)
	for i := 0; i < n; i++ {
		var ins []wire.OutPoint
		var total int64
		if o := take(&otherOuts); o != nil {
			ins, total = append(ins, o.OP), total+o.Value
		}
		if r.Bool() {
			if o := take(&mineOuts); o != nil {
				ins, total = append(ins, o.OP), total+o.Value
			}
		}
		if len(ins) == 0 {
			break
		}
		var outs []*wire.TxOut
		rest := total - 10000
		add := func(val int64, script []byte) {
			if val > rest {
				val = rest
			}
			if val < 0 {
				val = 0
			}
			rest -= val
			outs = append(outs, wire.NewTxOut(val, script))
		}
		switch r.Intn(7) {
		case 0: // null data, one of them carrying a wallet script hash
			h := wh()
			add(0, append([]byte{0x6a, 0x20}, h[:]...))
			add(0, []byte{0x6a})
			add(rest/2, sim.P2WSH(wh()))
		case 1: // zero-value outputs to the wallet
			add(0, sim.P2WSH(wh()))
			add(0, sim.P2WSH(wh()))
			add(rest/3, sim.P2WSH(wd.StrangerPub()))
		case 2: // hundreds of outputs, many to one address
			h := wh()
			for j := 0; j < 150+r.Intn(150); j++ {
				if j%3 == 0 {
					add(1000, sim.P2WSH(wh()))
				} else {
					add(1000, sim.P2WSH(h))
				}
			}
		case 3: // staking with boundary frozen periods
			for _, fp := range []uint64{consensus.MinFrozenPeriod, consensus.MinFrozenPeriod + 1, 1474560} {
				add(rest/4, sim.StakingScript(wh(), fp))
			}
		case 4: // binding (20-byte target below the warm-up height) together with a plain output
			add(rest/3, sim.BindingScript(wh(), r.Bytes(20)))
			add(rest/3, sim.P2WSH(wh()))
		case 5: // everything to strangers from a wallet coin
			add(rest/2, sim.P2WSH(wd.StrangerPub()))
			add(0, []byte{0x6a, 0x01, 0x00})
		case 6: // staking and binding and plain for two different wallets in one transaction
			add(rest/4, sim.StakingScript(wh(), consensus.MinFrozenPeriod))
			add(rest/4, sim.BindingScript(wh(), r.Bytes(20)))
			add(rest/4, sim.P2WSH(wh()))
		}
		if len(outs) == 0 {
			continue
		}
		tx := sim.Spend(ins, nil, outs, r.Uint64()|1)
		if err := v.ApplyTx(tx, height); err != nil {
			continue
		}
		txs = append(txs, tx)
		// same-block child spending the first plain wallet output of the parent
		if r.Chance(40) {
			for idx, o := range tx.TxOut {
				ro := sim.ReadOut(wire.OutPoint{Hash: tx.TxHash(), Index: uint32(idx)}, o, height, false)
				if ro.HasHash && ro.Class == sim.ClassStd && o.Value > 50000 {
					child := sim.Spend([]wire.OutPoint{ro.OP}, nil, []*wire.TxOut{wire.NewTxOut(o.Value-20000, sim.P2WSH(wh()))}, r.Uint64()|1)
					if v.ApplyTx(child, height) == nil {
						txs = append(txs, child)
					}
					break
				}
			}
		}
	}
	return txs
}

// live: the follower consumed everything delivered and is at the node's tip.
func (e *c19Env) live(what string) bool {
	wd := e.wd
	if e.isHolding() && (e.holdAt == "suspend.after" || e.holdAt == "resume.before") {
		return true // the follower is suspended on purpose; checked after the release
	}
	fail := func(sig, msg string) bool {
		w := wd.Witness()
		w["last_request"] = e.lastCall
		if fe := sim.FatalEvents(); len(fe) > 0 {
			w["fatal_events"] = fe
			sig = "follower-died"
			msg = "a wallet goroutine died: " + firstLineOf(fe[0])
		}
		e.t.Violate(sig, "after "+what+": "+msg, w)
		return false
	}
	if fe := sim.FatalEvents(); len(fe) > 0 {
		return fail("follower-died", "")
	}
	if !wd.W.Quiesce(60 * time.Second) {
		ok, sum, full := c20Structural()
		if ok {
			w := wd.Witness()
			w["goroutines"], w["dump"] = sum, full
			e.t.Violate("follower-stalled", "after "+what+": the follower does not consume the delivered event; structural deadlock", w)
			return false
		}
		if fe := sim.FatalEvents(); len(fe) > 0 {
			return fail("follower-died", "")
		}
		e.t.Inconclusive("follower not idle 60 s after " + what)
		return false
	}
	if h, err := wd.W.W.SyncedTo(); err != nil || h != wd.N.Height() {
		// one more tip may be needed after a block the follower legitimately refused; C01 covers
		// equality — here only death/stall matter, so give it the next block
		e.t.Count("synced_behind_after_event", 1)
	}
	return true
}

func c19Case(t *core.T, steps int) {
	cfg := worldCfg{Maturity: uint64(t.R.Range(2, 4)), Wallets: t.R.Range(1, 3), Staking: true, BindingOld: true, Gap: uint32(t.R.Range(10, 20))}
	wd := newWorld(t, cfg)
	consensus.MinStakingValue = 100000000 // 1 MASS instead of 2048: the simulated chain pays small amounts (restored by closeWorld)
	defer func() { closeWorld(t, wd) }()
	e := &c19Env{t: t, wd: wd, pools: &c19Pools{}}
	e.g = &c19Gen{r: t.R, p: e.pools}
	wd.W.Points.SetFn(e.pointFn)
	defer e.releaseHold()
	// history with all classes
	for i := 0; i < t.R.Range(8, 16); i++ {
		b, err := wd.Extend(t.R.Range(1, 4))
		if err != nil {
			t.Fatalf("extend: %v", err)
		}
		wd.W.Deliver(b)
	}
	if !e.live("the initial history") {
		return
	}
	e.refresh()
	extraWallets := 0
	for step := 0; step < steps && !t.Failed() && !e.abort; step++ {
		roll := t.R.Intn(100)
		switch {
		case roll < 70:
			e.request()
			if t.R.Chance(5) {
				e.refresh()
			}
		case roll < 78:
			e.collect()
			e.refresh()
		case roll < 88:
			// block with hostile transactions, sometimes as a reorganisation
			if e.isHolding() && t.R.Bool() {
				e.releaseHold()
				t.Count("holds_released", 1)
			}
			best := wd.N.BestChain()
			parent := best[len(best)-1]
			fork := t.R.Chance(20) && len(best) > 4
			if fork {
				d := t.R.Range(1, 2)
				nb, _, err := wd.Fork(d, d+1, 1)
				if err != nil {
					t.Fatalf("fork: %v", err)
				}
				if nb != nil {
					wd.W.Deliver(nb)
					t.Count("reorgs_delivered", 1)
				}
			} else {
				v, err := sim.ViewOf(parent)
				if err != nil {
					t.Fatalf("view: %v", err)
				}
				v.Tip = parent.Height + 1
				hostile := e.hostileTxs(v, parent.Height+1)
				v.Tip = parent.Height
				avoid := map[wire.OutPoint]bool{}
				for _, tx := range hostile {
					for _, in := range tx.TxIn {
						avoid[in.PreviousOutPoint] = true
					}
				}
				b, err := wd.BuildBlockAvoiding(parent, hostile, t.R.Range(0, 2), avoid)
				if err != nil {
					t.Fatalf("build: %v", err)
				}
				if err := wd.N.Extend(b); err != nil {
					t.Fatalf("node refuses the block (harness): %v", err)
				}
				wd.Logf("extend h=%d %s txs=%d (hostile %d)", b.Height, b.Hash.String()[:10], len(b.Msg.Transactions), len(hostile))
				wd.W.Deliver(b)
				t.Count("hostile_blocks_delivered", 1)
				t.Count("hostile_txs_in_blocks", len(hostile))
			}
			if !e.live("a block") {
				return
			}
			e.refresh()
		case roll < 93:
			// unconfirmed hostile transactions (incl. double spends of each other and duplicates)
			best := wd.N.BestChain()
			v, err := sim.ViewOf(best[len(best)-1])
			if err != nil {
				t.Fatalf("view: %v", err)
			}
			v.Tip++
			txs := e.hostileTxs(v, v.Tip)
			for _, tx := range txs {
				wd.W.DeliverTx(tx)
				e.pendingIDs = append(e.pendingIDs, tx.TxHash().String())
				if t.R.Chance(25) {
					wd.W.DeliverTx(tx)
				}
				if t.R.Chance(30) && len(tx.TxIn) > 0 {
					ds := sim.Spend([]wire.OutPoint{tx.TxIn[0].PreviousOutPoint}, nil, []*wire.TxOut{wire.NewTxOut(1000, sim.P2WSH(wd.StrangerPub()))}, t.R.Uint64()|1)
					wd.W.DeliverTx(ds)
				}
				t.Count("hostile_pending_delivered", 1)
			}
			if !e.live("unconfirmed transactions") {
				return
			}
		case roll < 95 && !e.isHolding():
			// a request on the wallet in use parked at one of its database reads while that wallet is removed
			e.overlap()
			if !e.live("an overlapped removal") {
				return
			}
			e.refresh()
		case roll < 97:
			// a wallet import or removal held half-way while requests go on
			if e.isHolding() {
				e.releaseHold()
				t.Count("holds_released", 1)
				break
			}
			if t.R.Bool() && extraWallets < 3 {
				// import by mnemonic: the rescan task is held half-way
				point := []string{"import.begin", "suspend.after", "resume.before"}[t.R.Intn(3)]
				mn, err := keystore.NewMnemonic(t.R.Bytes(16))
				if err != nil {
					break
				}
				e.armHold(point)
				sum, err := wd.W.W.ImportWalletWithMnemonic(&keystore.WalletParams{Mnemonic: mn, PrivatePassphrase: []byte("c19pass"), Remarks: "held", AddressGapLimit: cfg.Gap})
				if err != nil {
					e.releaseHold()
					break
				}
				extraWallets++
				wd.Keys = append(wd.Keys, &sim.WalletKeys{ID: sum.WalletID, Pass: "c19pass", Mnemonic: mn, Owned: map[[32]byte]bool{}, Staking: map[[32]byte]bool{}})
				select {
				case <-e.held:
					t.Count("request_phases_with_import_held_at_"+point, 1)
				case <-time.After(20 * time.Second):
					e.releaseHold()
				}
				wd.Logf("ImportWalletWithMnemonic %s held at %s", sum.WalletID[:10], point)
			} else if len(wd.Keys) > 1 {
				point := []string{"remove.round", "suspend.after", "resume.before", "worker.task"}[t.R.Intn(4)]
				k := wd.Keys[len(wd.Keys)-1]
				e.armHold(point)
				if err := wd.W.W.RemoveWallet(k.ID, k.Pass); err != nil {
					e.releaseHold()
					break
				}
				wd.Keys = wd.Keys[:len(wd.Keys)-1]
				select {
				case <-e.held:
					t.Count("request_phases_with_removal_held_at_"+point, 1)
				case <-time.After(20 * time.Second):
					e.releaseHold()
				}
				wd.Logf("RemoveWallet %s held at %s", k.ID[:10], point)
			}
			e.refresh()
		default:
			// restart
			e.releaseHold()
			if !e.live("release") {
				return
			}
			if !wd.W.WorkerIdle(60 * time.Second) {
				t.Inconclusive("worker not idle before the restart")
				return
			}
			if !wd.W.Stop(30 * time.Second) {
				t.Inconclusive("Stop did not return (C20's subject)")
				return
			}
			w2, err := sim.OpenWallet(wd.N, wd.W.Dir, wd.W.Cfg)
			if err != nil {
				t.Fatalf("reopen: %v", err)
			}
			if err := w2.Start(); err != nil {
				t.Violate("restart-fails", "Start after a clean stop fails: "+err.Error(), wd.Witness())
				w2.CloseUnstarted()
				return
			}
			wd.W = w2
			w2.Points.SetFn(e.pointFn)
			wd.Logf("restart")
			t.Count("restarts", 1)
			e.refresh()
		}
	}
	e.releaseHold()
	if t.Failed() || e.abort {
		return
	}
	e.live("the session")
	if !wd.W.WorkerIdle(60 * time.Second) {
		t.Inconclusive("worker not idle at the end of the session")
	}
	t.Sample(map[string]interface{}{"requests": e.calls, "last_request": firstN(e.lastCall, 300), "wallets_at_end": len(wd.Keys), "height": wd.N.Height()})
}

func init() {
	core.Register(&core.Property{
		ID:    "C19",
		Level: "exploration",
		Rule: "case = one seeded session on a node simulator + started wallet (1–3 wallets, staking/binding/plain history): 70 % requests to a random api.APIServer handler (all handlers except GetClientStatus and SendRawTransaction, which need live peers / a live mempool; the chain-query handlers are served by the simulator's chain database; 45 % of the draws go to the eleven transaction/query handlers with the deepest code), built by reflection from a field-name aware grammar " +
			"(62 % a valid value of the field's category from the live state: wallet ids, std/staking/foreign addresses, own/foreign/unknown txids, right/wrong passphrases, raw and signed transactions the wallet produced, exported keystores, mnemonics; 10 % a value of another category; 12 % a damaged valid value; 16 % boundary/malformed strings; boundary integers; lists with duplicates, empty and 300 elements); 60 % of the requests are then rewritten into a request that is valid for the wallet in use (its coins incl. immature/pending/staked ones as inputs, its addresses, its passphrase), and 45 % of those get one field replaced by a generated value again; " +
			"8 % well-formed create/sign/relay round trips that leave coins reserved or pending; 10 % blocks (20 % of them reorganisations) carrying transactions with null-data, zero-value, 150–300 outputs, boundary staking, binding, mixed-owner inputs and same-block children; 5 % unconfirmed deliveries of the same shapes with duplicates and double spends; 4 % a removal held at one of four worker points while requests go on; 3 % restarts. " +
			"Every call runs under recover() with a 60 s watchdog; after every chain event the follower must have consumed it and no goroutine may have died. evaluations = requests issued; distinct_nontrivial = distinct (layer.method, ok|error, error text prefix)",
		Assumptions: []string{"GetClientStatus (needs the peer switch) and SendRawTransaction (needs the node's transaction pool with its consensus engine) are not exercised; the chain-query handlers GetBestBlock, GetBlockByHeight, GetTxStatus, GetRawTransaction, GetBlockStakingReward, GetNetworkBinding, CheckPoolPkCoinbase, CheckTargetBinding run against the simulator's chain database and an empty binding-state store (simulated coinbases carry no staking rewards)",
			"request strings are valid UTF-8 and pointer/interface arguments non-nil, as protobuf decoding and the handlers guarantee", "blocks and unconfirmed transactions carry only output classes mass-core's block validation accepts (witness-v0 script hash, staking, binding, null data)"},
		CaseTimeout: 1500 * time.Second,
		Race:        true,
		UseRace:     func(tier string, idx int) bool { return idx%10 == 9 },
		Cases: func(tier string, seed int64) int {
			if tier == "thorough" {
				return 400
			}
			return 40
		},
		Run: func(t *core.T) {
			steps := 700
			if t.Tier == "thorough" {
				steps = 3000
			}
			c19Case(t, steps)
		},
	})
}

var _ = masswallet.MaxMemPoolExpire
