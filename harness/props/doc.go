package props
