package props

import (
	"fmt"
	"os"
	"path/filepath"
	"sort"
	"strings"
	"sync"
	"sync/atomic"
	"time"

	"github.com/massnetorg/mass-core/consensus"
	"github.com/massnetorg/mass-core/wire"
	"massnet.org/mass-wallet/masswallet"
	"massnet.org/mass-wallet/masswallet/keystore"

	"verifharness/core"
	"verifharness/sim"
)

// C07 — a restored wallet recovers its full history, even while the chain moves.
// Monitor: after the restored wallet turns ready its observation record must equal the reference
// ledger of the best chain (= what a wallet that watched the chain live reports, C01); while it is
// importing it must be reported as such and be unusable; chain changes are injected while the
// rescan transaction is open (worker held inside the node-database calls of a batch).

type c07Hold struct {
	mu      sync.Mutex
	method  string
	nth     int
	seen    int
	held    chan struct{} // closed when the worker is parked
	release chan struct{}
	armed   bool
}

func (h *c07Hold) hook(method string) error {
	h.mu.Lock()
	if !h.armed || method != h.method {
		h.mu.Unlock()
		return nil
	}
	h.seen++
	if h.seen != h.nth {
		h.mu.Unlock()
		return nil
	}
	h.armed = false
	held, rel := h.held, h.release
	h.mu.Unlock()
	close(held)
	<-rel
	return nil
}

func (h *c07Hold) arm(method string, nth int) {
	h.mu.Lock()
	h.method, h.nth, h.seen, h.armed = method, nth, 0, true
	h.held, h.release = make(chan struct{}), make(chan struct{})
	h.mu.Unlock()
}

func c07Case(t *core.T, long bool) {
	sim.InitProcess(filepath.Join(filepath.Dir(t.Dir), "log"))
	sim.ResetFatalEvents()
	restoreConsensus()
	defer restoreConsensus()
	if !long {
		consensus.CoinbaseMaturity = uint64(t.R.Range(2, 5))
	}
	consensus.MinFrozenPeriod = 2
	G := uint32(t.R.Range(3, 8))
	if long {
		G = 20
	}
	n, err := sim.NewNode(filepath.Join(t.Dir, "node"))
	if err != nil {
		t.Fatalf("node: %v", err)
	}
	defer n.Close()
	// the wallet to be restored exists only as a mnemonic; its addresses are derived independently
	ent := t.R.Bytes([]int{16, 20, 24, 28, 32}[t.R.Intn(5)])
	mnemonic, err := keystore.NewMnemonic(ent)
	if err != nil {
		t.Fatalf("mnemonic: %v", err)
	}
	pass := randPass(t.R)
	ref, err := refWalletFrom(mnemonic, pass)
	if err != nil {
		t.Fatalf("reference derivation: %v", err)
	}
	if ref.ShortRisk {
		t.Count("skipped_c14_known_finding_class", 1)
		return
	}
	k := &sim.WalletKeys{ID: ref.ID(), Pass: pass, Mnemonic: mnemonic, Owned: map[[32]byte]bool{}, Staking: map[[32]byte]bool{}}
	// used index set with gaps below the gap limit
	var usedIdx []uint32
	idx := uint32(t.R.Intn(int(G)))
	for len(usedIdx) < t.R.Range(1, 6) {
		usedIdx = append(usedIdx, idx)
		idx += uint32(t.R.Range(1, int(G)))
	}
	for _, i := range usedIdx {
		std, _, h, ok := ref.Address(i)
		if !ok {
			continue
		}
		k.Std = append(k.Std, std)
		k.Hashes = append(k.Hashes, h)
		k.Owned[h] = true
	}
	wd := &sim.World{T: t, R: t.R, N: n, Keys: []*sim.WalletKeys{k}}
	wd.Opt = sim.GenOpts{Staking: t.R.Chance(50), BindingOld: t.R.Chance(40), Frozen: []uint64{2, 4, 9}}
	wd.StrangerPub()
	wd.Logf("wallet %s to be restored; used indexes %v, gap limit %d", k.ID, usedIdx, G)
	fail := func(sig, msg string) {
		w := wd.Witness()
		if fe := sim.FatalEvents(); len(fe) > 0 {
			w["fatal_events"] = fe
		}
		t.Violate(sig, msg, w)
	}
	// history before the import (nobody watches: the node just builds the chain)
	pre := t.R.Range(8, 40)
	if long {
		pre = 2100 + t.R.Intn(1100)
	}
	for i := 0; i < pre; i++ {
		nr := t.R.Range(0, 3)
		if long && i%53 != 7 && i%211 != 3 {
			nr = 0
		}
		if !long && t.R.Chance(12) && n.Height() > 3 {
			d := t.R.Range(1, 3)
			if _, _, err := wd.Fork(d, d+t.R.Range(0, 1), 1); err != nil {
				t.Fatalf("fork: %v", err)
			}
			continue
		}
		if _, err := wd.Extend(nr); err != nil {
			t.Fatalf("extend: %v", err)
		}
	}
	// The index set is "used with gaps below the gap limit" only if every one of those addresses
	// really has history when the restore scans: the random history may have left one unpaid (or a
	// fork may have dropped its only payment), and then the addresses beyond it are out of reach of
	// ANY gap-limit scan - a history no wallet that issued its addresses under the gap rule can have.
	// Such addresses get a payment now.
	if v, err := sim.ViewOfChain(n.BestChain()); err == nil {
		paid := map[[32]byte]bool{}
		for _, o := range v.Outs {
			if o.HasHash {
				paid[o.Hash] = true
			}
		}
		var outs []*wire.TxOut
		for _, h := range k.Hashes {
			if !paid[h] {
				outs = append(outs, wire.NewTxOut(int64(1000000+t.R.Intn(1000000)), sim.P2WSH(h)))
			}
		}
		if len(outs) > 0 {
			cb := sim.Coinbase(n.Height()+1, t.R.Uint64(), append([]*wire.TxOut{wire.NewTxOut(1, sim.P2WSH(wd.StrangerPub()))}, outs...))
			b := n.NewBlock(n.Tip(), []*wire.MsgTx{cb})
			if err := n.Extend(b); err != nil {
				t.Fatalf("extend: %v", err)
			}
			wd.Logf("(block %d pays the %d used addresses the history had left without a payment)", b.Height, len(outs))
			t.Count("cases_topped_up_to_satisfy_the_gap_rule", 1)
			if os.Getenv("VERIF_C07_DEBUG") != "" {
				for i, h := range k.Hashes {
					fmt.Fprintf(os.Stderr, "C07DBG used index %d paid-before-import=%v\n", usedIdx[i], paid[h])
				}
			}
		}
	}
	// the restoring instance
	w, err := sim.OpenWallet(n, filepath.Join(t.Dir, "B"), sim.NewConfig(G))
	if err != nil {
		t.Fatalf("open: %v", err)
	}
	if err := w.Start(); err != nil {
		t.Fatalf("start: %v", err)
	}
	wd.W = w
	stopped := false
	defer func() {
		if !stopped && !w.Stop(30*time.Second) {
			t.Inconclusive("Stop did not return (C20's subject)")
		}
	}()
	// in half of the cases another wallet already lives on the restoring instance and shares
	// transactions with the wallet to be restored (one transaction paying or spending both): their
	// records exist in the database before the rescan finds them
	if t.R.Bool() {
		if _, err := wd.NewWalletKeys("c07resident", 128, t.R.Range(2, 3)); err != nil {
			t.Fatalf("resident wallet: %v", err)
		}
		for i := 0; i < t.R.Range(12, 30); i++ {
			b, err := wd.Extend(t.R.Range(1, 4))
			if err != nil {
				t.Fatalf("extend: %v", err)
			}
			w.Deliver(b)
		}
		if !wd.Settle() {
			t.Inconclusive("handler not idle")
			return
		}
		wd.Logf("-- a resident wallet %s watched the last blocks live", wd.Keys[len(wd.Keys)-1].ID[:10])
		t.Count("cases_with_a_resident_wallet_sharing_transactions", 1)
	}
	hold := &c07Hold{}
	n.Wrap.SetHook(hold.hook)
	defer n.Wrap.SetHook(nil)
	// park the worker once at the very beginning of its first batch (no database transaction is
	// open there): the write-path probe (RemoveWallet while importing) runs at that moment
	g := &gate{}
	g.Close()
	parked := make(chan struct{})
	// long cases: the worker is parked again at the beginning of its second batch (the rescan
	// cursor is committed, the follower runs) and a reorganisation reaches down to the cursor
	g2 := &gate{}
	g2.Close()
	parked2 := make(chan struct{})
	var nBegin int32
	w.Points.SetFn(func(name string) {
		if name == "import.begin" {
			switch atomic.AddInt32(&nBegin, 1) {
			case 1:
				close(parked)
				g.Wait()
			case 2:
				if long {
					close(parked2)
					g2.Wait()
				}
			}
		}
	})
	defer g.Open()
	defer g2.Open()
	// hold the worker inside the first batch
	methods := []string{"FetchScriptHashRelatedTx", "FetchBlockLocByHeight", "FetchTxByLoc"}
	heldMethod := methods[t.R.Intn(len(methods))]
	hold.arm(heldMethod, t.R.Range(1, 3))
	hint := uint32(0)
	if t.R.Chance(40) {
		hint = uint32(t.R.Intn(int(usedIdx[len(usedIdx)-1]) + 2))
	}
	// a quarter of the restores come from an exported keystore file instead: the file of a wallet that
	// had issued every used address and up to two more (made by an instance on an empty chain of its own)
	route := "mnemonic"
	ksJSON := ""
	if t.R.Chance(25) {
		x := usedIdx[len(usedIdx)-1] + 1 + uint32(t.R.Intn(3))
		js, kerr := c07KeystoreOf(t, mnemonic, pass, x, G)
		w.BindPoints() // the other instance is stopped: hook points go to the restoring instance again
		if kerr != nil {
			wd.Logf("(keystore file not produced: %v; mnemonic route)", kerr)
			t.Count("keystore_file_not_produced", 1)
		} else {
			ksJSON, route, hint = js, "keystore", x
		}
	}
	t.Eval(1)
	var sum *masswallet.WalletSummary
	if route == "keystore" {
		sum, err = w.W.ImportWallet(ksJSON, pass)
		wd.Logf("ImportWallet(keystore file with %d issued addresses) at height %d -> %v", hint, n.Height(), err)
		t.Count("restores_from_a_keystore_file", 1)
	} else {
		sum, err = w.W.ImportWalletWithMnemonic(&keystore.WalletParams{Mnemonic: mnemonic, PrivatePassphrase: []byte(pass), Remarks: "restored", ExternalIndex: hint, AddressGapLimit: G})
		wd.Logf("ImportWalletWithMnemonic(hint %d) at height %d -> %v", hint, n.Height(), err)
	}
	if err != nil {
		fail("restore-failed", fmt.Sprintf("import (%s route): %v", route, err))
		return
	}
	if sum.WalletID != k.ID {
		fail("restore-different-id", fmt.Sprintf("restored id %s, derived id %s", sum.WalletID, k.ID))
		return
	}
	// addresses the restored wallet knows (payments after the import moment go only to those)
	known := func() {
		ws, _ := w.W.Wallets()
		_ = ws
	}
	known()
	interleaved := 0
	batches := 0
	injected := []string{}
	inject := func() {
		// chain changes while the rescan transaction is open / between batches
		m := t.R.Range(1, 4)
		for i := 0; i < m; i++ {
			switch t.R.Pick(5, 3) {
			case 0:
				b, err := wd.Extend(t.R.Range(0, 2))
				if err != nil {
					t.Fatalf("extend: %v", err)
				}
				w.Deliver(b)
				injected = append(injected, "e")
			case 1:
				h := int(n.Height())
				if h < 3 {
					continue
				}
				d := t.R.Range(1, minInt(4, h-1))
				if long && t.R.Chance(30) {
					d = t.R.Range(1, 12)
				}
				if !long && t.R.Chance(20) {
					d = t.R.Range(1, h-1) // down to replacing (almost) the whole scanned range
				}
				nb, _, err := wd.Fork(d, d+t.R.Range(0, 2), 1)
				if err != nil {
					t.Fatalf("fork: %v", err)
				}
				if nb != nil {
					w.Deliver(nb)
					injected = append(injected, fmt.Sprintf("f%d", d))
				}
			}
		}
	}
	// status monitor while importing
	checkImporting := func(when string) bool {
		ws, err := w.W.Wallets()
		if err != nil {
			return true // the write transaction of the batch holds no lock on reads; errors here are not the subject
		}
		for _, s := range ws {
			if s.WalletID != k.ID {
				continue
			}
			if !s.Status.Ready() {
				t.Eval(1)
				if _, err := w.W.UseWallet(k.ID); err == nil {
					fail("importing-wallet-selectable", when+": UseWallet succeeded while Wallets() reports the wallet as importing")
					return false
				}
				t.Count("importing_status_checks", 1)
			}
		}
		return true
	}
	select {
	case <-parked:
		t.Eval(1)
		if _, err := w.W.UseWallet(k.ID); err == nil {
			fail("importing-wallet-selectable", "UseWallet succeeded before the first rescan batch of the restored wallet")
			g.Open()
			return
		}
		if err := w.W.RemoveWallet(k.ID, pass); err == nil {
			fail("importing-wallet-removable", "RemoveWallet was accepted while the wallet is importing")
			g.Open()
			return
		} else if err != masswallet.ErrWalletUnready {
			wd.Logf("RemoveWallet while importing refused with: %v", err)
		}
		t.Count("write_probes_while_importing", 1)
	case <-time.After(3 * time.Second):
	}
	g.Open()
	select {
	case <-hold.held:
		interleaved++
		wd.Logf("-- worker held inside %s; chain changes follow", heldMethod)
		inject()
		if !checkImporting("while the rescan is held") {
			close(hold.release)
			return
		}
		wd.Logf("-- worker released")
		close(hold.release)
	case <-time.After(5 * time.Second):
		// the import finished without reaching the hold point (e.g. nothing to scan)
		hold.mu.Lock()
		hold.armed = false
		hold.mu.Unlock()
	}
	if long {
		select {
		case <-parked2:
			cursor := uint64(0)
			if ws, err := w.W.Wallets(); err == nil {
				for _, s := range ws {
					if s.WalletID == k.ID {
						cursor = s.Status.SyncedHeight
					}
				}
			}
			tip := n.Height()
			if cursor > 3 && cursor < tip {
				// fork point 1, 2 or 3 below the cursor: the blocks from there up to the tip are replaced
				F := cursor - uint64(t.R.Range(1, 3))
				d := int(tip - F)
				nb, _, err := wd.Fork(d, d+t.R.Range(0, 2), 2)
				if err != nil {
					g2.Open()
					t.Fatalf("deep fork: %v", err)
				}
				if nb != nil {
					w.Deliver(nb)
					if !w.Quiesce(120 * time.Second) {
						g2.Open()
						t.Inconclusive("the follower did not finish the deep reorganisation within 120 s")
						return
					}
					injected = append(injected, fmt.Sprintf("deep-f%d(cursor %d, fork point %d)", d, cursor, F))
					wd.Logf("-- between batch 1 and 2 (cursor %d): reorganisation from height %d up", cursor, F+1)
					t.Count("reorgs_reaching_the_rescan_cursor", 1)
					interleaved++
				}
			}
		case <-time.After(20 * time.Second):
		}
		g2.Open()
	}
	// further holds in later batches / rounds
	for round := 0; round < t.R.Range(0, 3); round++ {
		m := methods[t.R.Intn(len(methods))]
		hold.arm(m, t.R.Range(1, 4))
		select {
		case <-hold.held:
			interleaved++
			wd.Logf("-- worker held inside %s; chain changes follow", m)
			inject()
			checkImporting("while the rescan is held")
			close(hold.release)
			wd.Logf("-- worker released")
		case <-time.After(300 * time.Millisecond):
			hold.mu.Lock()
			hold.armed = false
			hold.mu.Unlock()
		}
		if t.Failed() {
			return
		}
	}
	hold.mu.Lock()
	hold.armed = false
	hold.mu.Unlock()
	// bounded progress: the chain has stopped moving; the import must finish within a bounded
	// number of worker rounds
	startRounds := w.Points.Count("worker.task")
	deadline := time.Now().Add(90 * time.Second)
	ready := false
	for time.Now().Before(deadline) {
		ws, err := w.W.Wallets()
		if err == nil {
			for _, s := range ws {
				if s.WalletID == k.ID && s.Status.Ready() && !s.Status.IsRemoved() {
					ready = true
				}
			}
		}
		if ready {
			break
		}
		if len(sim.FatalEvents()) > 0 {
			break
		}
		if w.Points.Count("worker.task")-startRounds > int64(60+n.Height()/500) {
			fail("import-never-finishes", fmt.Sprintf("the chain stopped moving but the import did not finish within %d worker rounds", w.Points.Count("worker.task")-startRounds))
			return
		}
		time.Sleep(2 * time.Millisecond)
	}
	batches = int(w.Points.Count("import.begin"))
	if fe := sim.FatalEvents(); len(fe) > 0 {
		fail("worker-died-during-import", "the background worker panicked during the rescan: "+firstLineOf(fe[0]))
		return
	}
	if !ready {
		if ok, sum, _ := c20Structural(); ok {
			w := wd.Witness()
			w["goroutines"] = sum
			w["injected"] = injected
			t.Violate("import-never-finishes", "the chain stopped moving, the restored wallet is still reported as importing and every wallet goroutine is idle: nobody will finish the rescan", w)
			return
		}
		t.Inconclusive("import not ready after 90s (no structural witness)")
		return
	}
	if !wd.Settle() {
		t.Inconclusive("handler not idle")
		return
	}
	// after ready: the restored wallet knows at least the used indexes; equality with the ledger
	t.Eval(1)
	if _, err := w.W.UseWallet(k.ID); err != nil {
		fail("ready-wallet-not-selectable", err.Error())
		return
	}
	// payments made after the import moment went to arbitrary derived addresses of k.Hashes: all of
	// them have history before the import, so the restored wallet must own them
	d := wd.CheckLedger(sim.CompareOpts{Histories: true, AddrBal: false})
	if len(d) > 0 {
		var keys []string
		for kk := range d {
			keys = append(keys, kk)
		}
		sort.Strings(keys)
		var lines []string
		for _, kk := range keys {
			for _, x := range d[kk] {
				lines = append(lines, kk+": "+x)
			}
		}
		w2 := wd.Witness()
		w2["differences"] = lines
		w2["injected_while_importing"] = injected
		t.Violate("restored-wallet-differs-from-ledger", "after the import finished the restored wallet differs from what the best chain pays to its addresses: "+strings.Join(lines, " | "), w2)
		return
	}
	// a few more blocks live, then again
	for i := 0; i < 3; i++ {
		b, err := wd.Extend(t.R.Range(0, 2))
		if err != nil {
			t.Fatalf("extend: %v", err)
		}
		w.Deliver(b)
	}
	if wd.Settle() {
		if d := wd.CheckLedger(sim.CompareOpts{Histories: true}); len(d) > 0 {
			reportLedgerDiffs(t, wd, d, "live following after the import")
			return
		}
	}
	// the chain reorganises below blocks whose transactions the IMPORT recorded (not the live follower):
	// what the rescan wrote must be as good a basis for a rollback as what live following writes
	if h := int(n.Height()); h > 4 {
		maxd := 6
		if long {
			maxd = 3
		}
		dd := t.R.Range(1, minInt(maxd, h-2))
		var nb *sim.Block
		var err error
		if t.R.Chance(25) {
			nb, _, err = wd.Revive(t.R.Range(0, 2))
		}
		if nb == nil && err == nil {
			nb, _, err = wd.Fork(dd, dd+t.R.Range(0, 1), 2)
		}
		if err != nil {
			t.Fatalf("fork after the import: %v", err)
		}
		if nb != nil {
			w.Deliver(nb)
			if b, err := wd.Extend(t.R.Range(0, 2)); err == nil {
				w.Deliver(b)
			}
			if !wd.Settle() {
				t.Inconclusive("handler not idle after the post-import reorganisation")
				return
			}
			t.Eval(1)
			if d := wd.CheckLedger(sim.CompareOpts{Histories: true}); len(d) > 0 {
				reportLedgerDiffs(t, wd, d, "a reorganisation after the import")
				return
			}
			t.Count("reorgs_after_the_import", 1)
		}
	}
	t.Count("rescan_batches", batches)
	t.Count("chain_changes_injected_while_rescan_open", len(injected))
	t.Max("chain_height", int(n.Height()))
	if interleaved > 0 && len(injected) > 0 || batches >= 2 {
		t.Nontrivial(fmt.Sprintf("long%v|held%d|%s|batches%d|%s%d|used%d", long, interleaved, strings.Join(injected, ""), bucket(batches), route, hint, len(usedIdx)))
	}
	ops := wd.Ops
	if len(ops) > 12 {
		ops = append(ops[:4], ops[len(ops)-8:]...)
	}
	t.Sample(map[string]interface{}{"long_chain": long, "gap_limit": G, "used_indexes": usedIdx, "route": route, "hint": hint, "held_in": heldMethod, "injected": injected, "batches": batches, "ops": ops})
	_ = masswallet.ErrWalletUnready
	_ = wire.MaxTxInSequenceNum
}

func firstLineOf(s string) string {
	if i := strings.Index(s, "\n"); i > 0 {
		return s[:i]
	}
	return s
}

func init() {
	plans := map[string]struct{ short, long int }{
		"quick":    {short: 60, long: 6},
		"thorough": {short: 1500, long: 100},
	}
	core.Register(&core.Property{
		ID:    "C07",
		Level: "exploration",
		Rule: "case = a wallet that exists only as a mnemonic; its addresses at a drawn index set with gaps below the gap limit (3-8, long chains 20) are derived independently and paid/spent on a history (standard, staking, binding; forks) nobody watches; then an instance restores the mnemonic (hint 0 or random) and the rescan worker is held by the node-database interposer " +
			"inside FetchScriptHashRelatedTx / FetchBlockLocByHeight / FetchTxByLoc of a batch (1-4 times) while 1-4 chain changes (extensions, reorgs of depth 1-4, long chains up to 12, below or above the cursor) are committed and announced; long cases use 2100-3200 blocks with default consensus constants (≥3 rescan batches). " +
			"Oracles: while importing the wallet must be listed as importing, not selectable, not removable; the import must finish within a bounded number of worker rounds once the chain stops; no follower panic; afterwards the observation record must equal the reference ledger, also after further live blocks. " +
			"distinct_nontrivial = distinct (long, holds, injected changes, batch bucket, hint, used indexes) of cases with ≥1 chain change while a rescan transaction was open or ≥2 batches",
		Assumptions: []string{"the 'original wallet' is represented by the reference ledger (what a live watcher reports, property C01)", "payments after the import moment go only to addresses that had history before it", "seeds in the C14 known-finding class are skipped and counted"},
		CaseTimeout: 400 * time.Second,
		Cases:       func(tier string, seed int64) int { p := plans[tier]; return p.short + p.long },
		Run: func(t *core.T) {
			p := plans[t.Tier]
			c07Case(t, t.Index >= p.short)
		},
	})
}

// c07KeystoreOf returns the exported keystore file of the wallet of this mnemonic with x issued
// addresses, produced by a separate instance that follows an empty chain of its own.
func c07KeystoreOf(t *core.T, mnemonic, pass string, x, G uint32) (string, error) {
	dir := filepath.Join(t.Dir, "K")
	n2, err := sim.NewNode(filepath.Join(dir, "node"))
	if err != nil {
		return "", err
	}
	defer n2.Close()
	w2, err := sim.OpenWallet(n2, filepath.Join(dir, "wallet"), sim.NewConfig(G))
	if err != nil {
		return "", err
	}
	if err := w2.Start(); err != nil {
		w2.CloseUnstarted()
		return "", err
	}
	defer w2.Stop(30 * time.Second)
	sum, err := w2.W.ImportWalletWithMnemonic(&keystore.WalletParams{Mnemonic: mnemonic, PrivatePassphrase: []byte(pass), Remarks: "original", ExternalIndex: x, AddressGapLimit: G})
	if err != nil {
		return "", err
	}
	if !w2.WorkerIdle(30 * time.Second) {
		return "", fmt.Errorf("import on the empty chain did not finish")
	}
	return w2.W.ExportWallet(sum.WalletID, pass)
}
