package props

import (
	"bufio"
	"bytes"
	"crypto/hmac"
	"crypto/sha256"
	"crypto/sha512"
	_ "embed"
	"encoding/hex"
	"encoding/json"
	"fmt"
	"os"
	"os/exec"
	"path/filepath"
	"strings"

	"massnet.org/mass-wallet/masswallet/keystore"

	"verifharness/core"
)

// C13 — mnemonic encoding is exactly BIP-39.
// References: (i) bit-string encoder/decoder + own PBKDF2-HMAC-SHA512 below (no big integers,
// no x/crypto); (ii) tools/bip39_ref.py (python hashlib), run at check time.

//go:embed bip39_english.txt
var bip39EnglishTxt string

var (
	refWords   []string
	refWordIdx map[string]int
)

func init() {
	sum := sha256.Sum256([]byte(bip39EnglishTxt))
	if hex.EncodeToString(sum[:]) != "2f5eed53a4727b4bf8880d8f3f199efc90e58503646d9ff8eff3a2ed3b24dbda" {
		panic("harness copy of the BIP-39 word list is corrupted")
	}
	refWords = strings.Fields(bip39EnglishTxt)
	refWordIdx = map[string]int{}
	for i, w := range refWords {
		refWordIdx[w] = i
	}
}

func bitsOf(b []byte) []byte {
	out := make([]byte, 0, len(b)*8)
	for _, x := range b {
		for i := 7; i >= 0; i-- {
			out = append(out, (x>>uint(i))&1)
		}
	}
	return out
}

func refBip39Encode(ent []byte) string {
	h := sha256.Sum256(ent)
	bits := append(bitsOf(ent), bitsOf(h[:])[:len(ent)/4]...)
	var ws []string
	for i := 0; i+11 <= len(bits); i += 11 {
		v := 0
		for j := 0; j < 11; j++ {
			v = v<<1 | int(bits[i+j])
		}
		ws = append(ws, refWords[v])
	}
	return strings.Join(ws, " ")
}

// refBip39Decode: words → entropy; ok=false if length, word or checksum is wrong.
func refBip39Decode(words []string) ([]byte, string) {
	n := len(words)
	if n%3 != 0 || n < 12 || n > 24 {
		return nil, "length"
	}
	bits := make([]byte, 0, n*11)
	for _, w := range words {
		idx, ok := refWordIdx[w]
		if !ok {
			return nil, "word"
		}
		for j := 10; j >= 0; j-- {
			bits = append(bits, byte(idx>>uint(j))&1)
		}
	}
	entBits := n * 11 * 32 / 33
	ent := make([]byte, entBits/8)
	for i := 0; i < entBits; i++ {
		ent[i/8] |= bits[i] << uint(7-i%8)
	}
	h := sha256.Sum256(ent)
	hb := bitsOf(h[:])
	for i := entBits; i < n*11; i++ {
		if bits[i] != hb[i-entBits] {
			return nil, "checksum"
		}
	}
	return ent, ""
}

// refFields splits on the white space a user can type between words (the repo uses
// strings.Fields; we only generate ASCII blanks so both notions coincide).
func refFields(s string) []string {
	return strings.FieldsFunc(s, func(r rune) bool { return r == ' ' || r == '\t' || r == '\n' || r == '\r' })
}

func refPBKDF2SHA512(password, salt []byte, iter, keyLen int) []byte {
	prf := hmac.New(sha512.New, password)
	hashLen := prf.Size()
	numBlocks := (keyLen + hashLen - 1) / hashLen
	var dk []byte
	for block := 1; block <= numBlocks; block++ {
		prf.Reset()
		prf.Write(salt)
		prf.Write([]byte{byte(block >> 24), byte(block >> 16), byte(block >> 8), byte(block)})
		u := prf.Sum(nil)
		t := append([]byte{}, u...)
		for n := 2; n <= iter; n++ {
			prf.Reset()
			prf.Write(u)
			u = prf.Sum(nil)
			for i := range t {
				t[i] ^= u[i]
			}
		}
		dk = append(dk, t...)
	}
	return dk[:keyLen]
}

func refBip39Seed(sentence string, pass string) []byte {
	return refPBKDF2SHA512([]byte(sentence), []byte("mnemonic"+pass), 2048, 64)
}

var c13Sizes = []int{16, 20, 24, 28, 32}

func c13Entropy(r *core.Rand) ([]byte, string) {
	size := c13Sizes[r.Intn(5)]
	kind := r.Intn(8)
	ent := r.Bytes(size)
	label := "random"
	switch kind {
	case 0:
		z := r.Range(1, 8)
		for i := 0; i < z; i++ {
			ent[i] = 0
		}
		label = fmt.Sprintf("leadzero%d", z)
	case 1:
		for i := range ent {
			ent[i] = 0
		}
		if r.Bool() {
			ent[r.Intn(size)] = 1 << uint(r.Intn(8))
			label = "singlebit"
		} else {
			label = "allzero"
		}
	case 2:
		for i := range ent {
			ent[i] = 0xff
		}
		if r.Bool() {
			ent[r.Intn(size)] ^= 1 << uint(r.Intn(8))
			label = "allone-but-one"
		} else {
			label = "allone"
		}
	case 3:
		z := r.Range(1, 6)
		for i := 0; i < z; i++ {
			ent[size-1-i] = 0
		}
		label = fmt.Sprintf("trailzero%d", z)
	case 4: // leading zero *bits* only
		ent[0] &= 0xff >> uint(r.Range(1, 7))
		label = "leadzerobits"
	}
	return ent, label
}

func c13Pass(r *core.Rand) string {
	switch r.Intn(5) {
	case 0:
		return ""
	case 1:
		return "TREZOR"
	case 2:
		return "pässwörd-密码"
	default:
		b := r.Bytes(r.Range(1, 40))
		for i := range b {
			b[i] = 33 + b[i]%94
		}
		return string(b)
	}
}

func c13CheckEntropy(t *core.T, ent []byte, label string, withSeed bool) {
	t.Eval(1)
	w := map[string]interface{}{"entropy": hex.EncodeToString(ent)}
	want := refBip39Encode(ent)
	got, err := keystore.NewMnemonic(ent)
	if err != nil || got != want {
		t.Violatef("encode-mismatch", w, "NewMnemonic(%x)=%q,%v want %q", ent, got, err, want)
		return
	}
	back, err := keystore.EntropyFromMnemonic(want)
	if err != nil || !bytes.Equal(back, ent) {
		t.Violatef("decode-mismatch:EntropyFromMnemonic", w, "EntropyFromMnemonic(%q)=%x,%v want %x", want, back, err, ent)
	}
	raw, err := keystore.MnemonicToByteArray(want, true)
	if err != nil || !bytes.Equal(raw, ent) {
		t.Violatef("decode-mismatch:MnemonicToByteArray", w, "MnemonicToByteArray(%q,raw)=%x,%v want %x", want, raw, err, ent)
	}
	if !keystore.IsMnemonicValid(want) {
		t.Violatef("valid-rejected:IsMnemonicValid", w, "IsMnemonicValid(%q)=false", want)
	}
	if withSeed {
		pass := c13Pass(t.R)
		ws := refBip39Seed(want, pass)
		gs := keystore.NewSeed(want, pass)
		gs2, err := keystore.NewSeedWithErrorChecking(want, pass)
		if !bytes.Equal(gs, ws) || err != nil || !bytes.Equal(gs2, ws) {
			w["passphrase"] = pass
			t.Violatef("seed-mismatch", w, "seed of %q / %q differs from PBKDF2 reference (err=%v)", want, pass, err)
		}
		t.Count("seeds_compared", 1)
	}
	t.Nontrivial(fmt.Sprintf("ent:%d:%s", len(ent)*8, label))
}

func c13Mutate(r *core.Rand, words []string) ([]string, string, string) {
	ws := append([]string{}, words...)
	sep := " "
	kind := ""
	switch r.Intn(10) {
	case 9: // separators that are white space for Unicode but not for ASCII-only code
		seps := []string{"\u00a0", "\u3000", "\u2003", "\u0085", "\v", "\f", " \u00a0"}
		sep = seps[r.Intn(len(seps))]
		kind = "respace-unicode"
	case 0: // substitute one word by another list word
		ws[r.Intn(len(ws))] = refWords[r.Intn(2048)]
		kind = "subst-listword"
	case 1: // substitute by a non-word
		non := []string{"abandonn", "Abandon", "zoo.", "", "zo", "abandon,", "ábandon", "0", "abandon\x00"}
		x := non[r.Intn(len(non))]
		if x == "" {
			x = "qqqq"
		}
		ws[r.Intn(len(ws))] = x
		kind = "subst-nonword"
	case 2: // swap two words
		i, j := r.Intn(len(ws)), r.Intn(len(ws))
		ws[i], ws[j] = ws[j], ws[i]
		kind = "swap"
	case 3: // drop words
		d := r.Range(1, 3)
		ws = ws[:len(ws)-d]
		kind = fmt.Sprintf("drop%d", d)
	case 4: // add words
		d := r.Range(1, 3)
		for i := 0; i < d; i++ {
			ws = append(ws, refWords[r.Intn(2048)])
		}
		kind = fmt.Sprintf("add%d", d)
	case 5: // re-space
		seps := []string{"  ", "\t", " \t ", "\n", "   "}
		sep = seps[r.Intn(len(seps))]
		kind = "respace"
	case 6: // leading / trailing blanks
		kind = "pad"
	case 7: // valid sentence of another length built from a prefix (checksum almost surely wrong)
		n := []int{12, 15, 18, 21, 24}[r.Intn(5)]
		for len(ws) < n {
			ws = append(ws, refWords[r.Intn(2048)])
		}
		ws = ws[:n]
		kind = "relength"
	default: // change last word only (checksum class: 1/16 .. 1/256 valid)
		ws[len(ws)-1] = refWords[r.Intn(2048)]
		kind = "lastword"
	}
	s := strings.Join(ws, sep)
	if kind == "pad" {
		s = strings.Repeat(" ", r.Intn(3)) + s + []string{" ", "\n", "  ", "\t"}[r.Intn(4)]
	}
	return ws, s, kind
}

func c13CheckSentence(t *core.T, s, kind string) {
	t.Eval(1)
	words := refFields(s)
	if kind == "respace-unicode" {
		// whether such a character separates words is not fixed by the statement: the sentence may be
		// refused; if it is accepted it is the word sequence a Unicode-aware split gives, and entropy
		// and seed must be those of that sequence
		words = strings.Fields(s)
	}
	ent, why := refBip39Decode(words)
	refOK := why == ""
	gotEnt, err1 := keystore.EntropyFromMnemonic(s)
	w := map[string]interface{}{"sentence": s, "mutation": kind}
	pass := ""
	if t.R.Chance(30) {
		pass = c13Pass(t.R)
	}
	accepted := err1 == nil
	var seed []byte
	if accepted {
		var err2 error
		seed, err2 = keystore.NewSeedWithErrorChecking(s, pass)
		accepted = err2 == nil
	} else if refOK {
		// also look at the second half of the import path alone
		_, err2 := keystore.NewSeedWithErrorChecking(s, pass)
		if err2 != nil {
			t.Count("rejected_by_both_halves", 1)
		}
	}
	switch {
	case refOK && !accepted && kind == "respace-unicode":
		t.Count("unicode_separated_sentences_refused", 1)
	case refOK && !accepted:
		t.Violatef("valid-rejected:"+kind, w, "import path rejects a sentence with legal length, list words and correct checksum (%s)", kind)
	case !refOK && accepted:
		t.Violatef("invalid-accepted:"+why+":"+kind, w, "import path accepts a sentence with wrong %s (%s)", why, kind)
	case refOK && accepted:
		if !bytes.Equal(gotEnt, ent) {
			t.Violatef("decode-mismatch:"+kind, w, "EntropyFromMnemonic=%x want %x", gotEnt, ent)
		}
		canon := strings.Join(words, " ")
		want := refBip39Seed(canon, pass)
		if !bytes.Equal(seed, want) {
			sig := "seed-mismatch:" + kind
			if canon != s {
				sig = "seed-depends-on-spacing"
			}
			w["passphrase"] = pass
			t.Violatef(sig, w, "seed of accepted sentence differs from the BIP-39 seed of its word sequence (mutation %s)", kind)
		}
		if !keystore.IsMnemonicValid(s) {
			t.Violatef("valid-rejected:IsMnemonicValid", w, "IsMnemonicValid=false for a valid sentence")
		}
		// MnemonicToByteArray must agree as well
		raw, err := keystore.MnemonicToByteArray(s, true)
		if err != nil || !bytes.Equal(raw, ent) {
			t.Violatef("decode-mismatch:MnemonicToByteArray:"+kind, w, "MnemonicToByteArray(raw)=%x,%v want %x", raw, err, ent)
		}
	}
	verdict := "ok"
	if !refOK {
		verdict = why
	}
	t.Nontrivial(fmt.Sprintf("mut:%s:%d:%s", kind, len(words), verdict))
	t.Count("sentences_ref_"+verdict, 1)
}

func init() {
	type plan struct{ entChunks, entPer, seedEvery, mutChunks, mutPer, pyVectors int }
	plans := map[string]plan{
		"quick":    {entChunks: 16, entPer: 190, seedEvery: 1, mutChunks: 16, mutPer: 320, pyVectors: 140},
		"thorough": {entChunks: 64, entPer: 4700, seedEvery: 4, mutChunks: 64, mutPer: 7900, pyVectors: 2000},
	}
	core.Register(&core.Property{
		ID:    "C13",
		Level: "exploration",
		Rule: "cases = seeded entropies of the five sizes (random, 1-8 leading zero bytes, leading zero bits, trailing zeros, all-zero, all-one, single bit) and mutants of valid sentences " +
			"(substitute list word / non-word, swap, drop, add, re-space, pad, re-length, last word); oracle = bit-level BIP-39 codec + own PBKDF2-HMAC-SHA512, cross-checked at run time against tools/bip39_ref.py " +
			"(python hashlib) which is anchored on the published all-zero/TREZOR vector; distinct_nontrivial = distinct (size, entropy class) and (mutation, word count, reference verdict) combinations",
		Assumptions: []string{"harness copy of the BIP-39 English list (sha256 2f5eed53… verified at start)", "IsMnemonicValid only required to accept valid sentences", "acceptance = EntropyFromMnemonic ∧ NewSeedWithErrorChecking (the import path)"},
		Cases: func(tier string, seed int64) int {
			p := plans[tier]
			return 1 + p.entChunks + p.mutChunks
		},
		CaseTimeout: 0,
		Run: func(t *core.T) {
			p := plans[t.Tier]
			i := t.Index
			if i == 0 {
				c13Python(t, p.pyVectors)
				return
			}
			i--
			if i < p.entChunks {
				for n := 0; n < p.entPer; n++ {
					ent, label := c13Entropy(t.R)
					c13CheckEntropy(t, ent, label, n%p.seedEvery == 0)
					if n == 0 {
						t.Sample(map[string]interface{}{"kind": "entropy", "class": label, "entropy": hex.EncodeToString(ent), "sentence": refBip39Encode(ent)})
					}
				}
				return
			}
			for n := 0; n < p.mutPer; n++ {
				ent, _ := c13Entropy(t.R)
				words := strings.Fields(refBip39Encode(ent))
				_, s, kind := c13Mutate(t.R, words)
				c13CheckSentence(t, s, kind)
				if n == 0 {
					t.Sample(map[string]interface{}{"kind": "mutant", "mutation": kind, "sentence": s})
				}
			}
		},
	})
}

func c13Python(t *core.T, n int) {
	verif := os.Getenv("VERIF_DIR")
	if verif == "" {
		verif = "/verif"
	}
	cmd := exec.Command("python3", filepath.Join(verif, "tools", "bip39_ref.py"), filepath.Join(verif, "harness", "props", "bip39_english.txt"), fmt.Sprint(t.Seed), fmt.Sprint(n))
	out, err := cmd.Output()
	if err != nil {
		t.Fatalf("python reference failed: %v", err)
	}
	sc := bufio.NewScanner(bytes.NewReader(out))
	sc.Buffer(make([]byte, 1<<20), 1<<20)
	cnt := 0
	for sc.Scan() {
		var v struct{ Entropy, Passphrase, Sentence, Seed string }
		if json.Unmarshal(sc.Bytes(), &v) != nil {
			continue
		}
		cnt++
		ent, _ := hex.DecodeString(v.Entropy)
		pw, _ := hex.DecodeString(v.Passphrase)
		t.Eval(1)
		// reference vs reference (harness self-check → harness fault, not a violation)
		if refBip39Encode(ent) != v.Sentence || hex.EncodeToString(refBip39Seed(v.Sentence, string(pw))) != v.Seed {
			t.Fatalf("Go reference and python reference disagree on entropy %s", v.Entropy)
		}
		w := map[string]interface{}{"entropy": v.Entropy, "passphrase_hex": v.Passphrase}
		got, err := keystore.NewMnemonic(ent)
		if err != nil || got != v.Sentence {
			t.Violatef("encode-mismatch", w, "NewMnemonic(%s)=%q,%v python says %q", v.Entropy, got, err, v.Sentence)
			continue
		}
		if hex.EncodeToString(keystore.NewSeed(v.Sentence, string(pw))) != v.Seed {
			t.Violatef("seed-mismatch", w, "NewSeed differs from python pbkdf2_hmac for %q", v.Sentence)
		}
		back, err := keystore.EntropyFromMnemonic(v.Sentence)
		if err != nil || hex.EncodeToString(back) != v.Entropy {
			t.Violatef("decode-mismatch:EntropyFromMnemonic", w, "EntropyFromMnemonic(%q)=%x,%v", v.Sentence, back, err)
		}
	}
	if cnt != n {
		t.Fatalf("python reference produced %d of %d vectors", cnt, n)
	}
	t.Count("python_vectors", cnt)
	t.Nontrivial("python-crosscheck")
}
