package props

import (
	"crypto/sha256"
	"fmt"
	"path/filepath"
	"time"

	"github.com/massnetorg/mass-core/consensus"
	"massnet.org/mass-wallet/masswallet/keystore"

	"verifharness/core"
	"verifharness/sim"
)

// c04TargetedCase: "keys match addresses" for the wallets random sampling almost never draws - those
// in which a private scalar on the signing path is SHORT (leading zero byte, 1 in 256 per key): the
// leaf key of an early address (external or internal branch) or the account key m/44'/coin'/1' itself,
// which the wallet stores in serialised form and re-derives every signing key from. The mnemonic is
// found by a search with the independent reference derivation (the class is constructed in every run,
// as C14 does for its parents); wallets in the C14 known-finding class are skipped. The wallet is
// restored from the mnemonic, every address must commit to its listed public key and SignHash must
// verify under it - right after the restore and after a restart.
func c04TargetedCase(t *core.T) {
	sim.InitProcess(filepath.Join(filepath.Dir(t.Dir), "log"))
	consensus.CoinbaseMaturity = defaultConsensus.cm
	pass := randPass(t.R)
	want := (t.Index / 6) % 3 // 0 external leaf, 1 internal leaf, 2 account key
	var mnemonic, class string
	var ref *refWallet
	var ext, in uint32
	found := false
	for try := 0; try < 6000 && !found; try++ {
		mn, err := keystore.NewMnemonic(t.R.Bytes([]int{16, 20, 24, 28, 32}[t.R.Intn(5)]))
		if err != nil {
			continue
		}
		r, err := refWalletFrom(mn, pass)
		if err != nil || r.ShortRisk {
			continue
		}
		switch want {
		case 0:
			for i := uint32(0); i < 4; i++ {
				if k, ok := r.Key(i); ok && k.Priv[0] == 0 {
					mnemonic, ref, ext, in, class, found = mn, r, i+1, 0, fmt.Sprintf("external leaf %d short", i), true
					break
				}
			}
		case 1:
			for i := uint32(0); i < 3; i++ {
				if k, ok := r.InternalKey(i); ok && k.Priv[0] == 0 {
					mnemonic, ref, ext, in, class, found = mn, r, 1, i+1, fmt.Sprintf("internal leaf %d short", i), true
					break
				}
			}
		case 2:
			if r.Acct.Priv[0] == 0 {
				mnemonic, ref, ext, in, class, found = mn, r, 3, 2, "account key short", true
			}
		}
	}
	if !found {
		t.Count("targeted_search_gave_up", 1)
		return
	}
	n, err := sim.NewNode(filepath.Join(t.Dir, "node"))
	if err != nil {
		t.Fatalf("node: %v", err)
	}
	defer n.Close()
	var ops []string
	fail := func(sig, msg string) {
		t.Violate(sig, msg, map[string]interface{}{"ops": ops, "mnemonic": mnemonic, "passphrase": pass, "class": class})
	}
	inst := c04Open(t, n, filepath.Join(t.Dir, "T"), randPass(t.R), "T")
	defer func() {
		if inst != nil {
			inst.stop(t)
		}
	}()
	t.Eval(1)
	sum, err := inst.w.W.ImportWalletWithMnemonic(&keystore.WalletParams{Mnemonic: mnemonic, PrivatePassphrase: []byte(pass), ExternalIndex: ext, InternalIndex: in, AddressGapLimit: 20})
	ops = append(ops, fmt.Sprintf("ImportWalletWithMnemonic(%s; external %d, internal %d) -> %v", class, ext, in, err))
	if err != nil {
		fail("import-mnemonic-failed", err.Error())
		return
	}
	if sum.WalletID != ref.ID() {
		fail("wallet-id-not-derived-from-mnemonic", fmt.Sprintf("wallet id %s; independent derivation gives %s (%s)", sum.WalletID, ref.ID(), class))
		return
	}
	if !inst.w.WorkerIdle(60 * time.Second) {
		t.Inconclusive("import did not finish")
		return
	}
	check := func(when string) bool {
		if _, err := inst.w.W.UseWallet(sum.WalletID); err != nil {
			fail("usewallet-failed", err.Error())
			return false
		}
		list, err := inst.w.W.GetAllAddressesWithPubkey()
		if err != nil {
			fail("listing-failed", err.Error())
			return false
		}
		got := map[[32]byte]bool{}
		seen := 0
		for _, a := range list {
			if a.PubKey == nil {
				continue
			}
			seen++
			t.Eval(1)
			h, herr := sim.HashOfAddress(a.Address)
			if herr != nil {
				continue
			}
			got[h] = true
			if pubKeyHash(a.PubKey) != h {
				fail("address-does-not-commit-to-pubkey", fmt.Sprintf("%s: %s is not the witness script hash of the listed public key (%s)", when, a.Address, class))
				return false
			}
			msg := sha256.Sum256([]byte(a.Address))
			sig, err := inst.w.W.SignHash(a.PubKey, msg[:], []byte(pass))
			if err != nil {
				fail("signhash-refused", fmt.Sprintf("%s: SignHash for %s: %v (%s)", when, a.Address, err, class))
				return false
			}
			if !sig.Verify(msg[:], a.PubKey) {
				fail("private-key-does-not-match-address", fmt.Sprintf("%s: the key derived for signing does not verify under the public key committed to by %s (%s)", when, a.Address, class))
				return false
			}
		}
		// the addresses themselves: independent derivation
		for i := uint32(0); i < ext; i++ {
			if _, _, h, ok := ref.Address(i); ok && !got[h] {
				fail("address-not-function-of-mnemonic", fmt.Sprintf("%s: the address of m/44'/coin'/1'/0/%d is not among the wallet's addresses (%s)", when, i, class))
				return false
			}
		}
		for i := uint32(0); i < in; i++ {
			if k, ok := ref.InternalKey(i); ok {
				if h := sha256.Sum256(redeemScript1of1(k.Pub[:])); !got[h] {
					fail("internal-address-not-function-of-mnemonic", fmt.Sprintf("%s: the address of m/44'/coin'/1'/1/%d is not among the wallet's addresses (%s)", when, i, class))
					return false
				}
			}
		}
		t.Count("address_keys_verified_in_targeted_wallets", seen)
		return true
	}
	if !check("after the restore") {
		return
	}
	if !inst.stop(t) {
		inst = nil
		return
	}
	inst = c04Open(t, n, inst.dir, inst.pub, "T")
	ops = append(ops, "restart")
	if !check("after a restart") {
		return
	}
	t.Count("targeted_wallets_"+map[int]string{0: "external_leaf_short", 1: "internal_leaf_short", 2: "account_key_short"}[want], 1)
	t.Nontrivial("targeted|" + class)
}
