package core

import (
	"encoding/json"
	"fmt"
	"io/ioutil"
	"os"
	"path/filepath"
	"sort"
	"strings"
	"time"
)

// Report writes the evidence file, replay files and the verdict lines; returns the exit code.
func Report(verifDir string, m *Merged, start time.Time, writeEvidence bool) int {
	p := m.Prop
	if p.Finish != nil {
		p.Finish(m)
	}
	findings := LoadFindings(verifDir)
	open := map[string]Finding{}
	for _, f := range findings {
		if f.Property == p.ID && f.Status == "open" {
			open[f.Signature] = f
		}
	}
	// classify violations
	var real []Violation
	knownSeen := map[string]int{}
	for _, v := range m.Violations {
		if _, ok := open[v.Signature]; ok {
			knownSeen[v.Signature]++
			continue
		}
		real = append(real, v)
	}
	sort.Slice(real, func(i, j int) bool { return real[i].Case < real[j].Case })

	exit := 0
	// replay files
	// VERIF_OUT redirects evidence and replay files (used when a seeded change is tried on a
	// scratch copy of the repository: the evidence of the real tree must not be overwritten)
	outDir := verifDir
	if o := os.Getenv("VERIF_OUT"); o != "" {
		outDir = o
	}
	replayDir := filepath.Join(outDir, "replays")
	printed := map[string]bool{}
	for _, v := range real {
		os.MkdirAll(replayDir, 0o755)
		name := fmt.Sprintf("%s-%s-seed%d-case%d.json", p.ID, m.Tier, m.Seed, v.Case)
		path := filepath.Join(replayDir, name)
		if !printed[path] {
			doc := map[string]interface{}{"property": p.ID, "tier": m.Tier, "seed": m.Seed, "case": v.Case,
				"signature": v.Signature, "message": v.Message, "witness": v.Witness,
				"replay_cmd": fmt.Sprintf("bin/check %s %s --replay %s", p.ID, m.Tier, path)}
			b, _ := json.MarshalIndent(doc, "", " ")
			ioutil.WriteFile(path, b, 0o644)
			printed[path] = true
			fmt.Printf("VIOLATION property=%s replay=%s\n", p.ID, path)
			fmt.Printf("  signature=%s\n  %s\n", v.Signature, firstLine(v.Message))
		}
		exit = 1
	}
	if len(real) > 0 {
		cnt := map[string]int{}
		for _, v := range real {
			cnt[v.Signature]++
		}
		var ss []string
		for s := range cnt {
			ss = append(ss, s)
		}
		sort.Strings(ss)
		for _, s := range ss {
			fmt.Printf("  distinct-signature property=%s count=%d %s\n", p.ID, cnt[s], s)
		}
	}
	var sigs []string
	for s := range knownSeen {
		sigs = append(sigs, s)
	}
	sort.Strings(sigs)
	for _, s := range sigs {
		fmt.Printf("KNOWN-FINDING: property=%s %s (signature %s, re-observed %d times)\n", p.ID, open[s].What, s, knownSeen[s])
	}
	if len(m.Fatals) > 0 {
		for _, f := range m.Fatals {
			fmt.Printf("HARNESS-FAULT property=%s %s\n", p.ID, firstLine(f))
		}
		if exit == 0 {
			exit = 2
		}
	}
	for i, inc := range m.Inconclusive {
		if i < 5 {
			fmt.Printf("INCONCLUSIVE property=%s %s\n", p.ID, firstLine(inc))
		}
	}
	if m.Executed < m.Cases && exit == 0 && len(m.Violations) == 0 {
		fmt.Printf("HARNESS-FAULT property=%s executed %d of %d cases\n", p.ID, m.Executed, m.Cases)
		exit = 2
	}

	if writeEvidence {
		cov := map[string]interface{}{
			"evaluations":               m.Evaluations,
			"distinct_nontrivial":       len(m.Fingerprints),
			"rule":                      p.Rule,
			"samples":                   m.Samples,
			"cases_planned":             m.Cases,
			"cases_executed":            m.Executed,
			"inconclusive":              len(m.Inconclusive),
			"known_findings_reobserved": knownSeen,
		}
		if m.Samples == nil {
			cov["samples"] = []interface{}{}
		}
		keys := []string{}
		for k := range m.Counters {
			keys = append(keys, k)
		}
		sort.Strings(keys)
		counters := map[string]int{}
		for _, k := range keys {
			counters[k] = m.Counters[k]
		}
		cov["counters"] = counters
		observed := map[string]interface{}{}
		for k, set := range m.Sets {
			items := []string{}
			for it := range set {
				items = append(items, it)
			}
			sort.Strings(items)
			n := len(items)
			if len(items) > 60 {
				items = items[:60]
			}
			observed[k] = map[string]interface{}{"distinct": n, "items": items}
		}
		cov["observed"] = observed
		for k, v := range m.Extra {
			cov[k] = v
		}
		if m.Exhaustive != nil {
			cov["exhaustive"] = *m.Exhaustive
		}
		if len(m.Inconclusive) > 0 {
			x := m.Inconclusive
			if len(x) > 3 {
				x = x[:3]
			}
			short := []string{}
			for _, s := range x {
				short = append(short, firstLine(s))
			}
			cov["inconclusive_examples"] = short
		}
		ev := map[string]interface{}{
			"property_id": p.ID,
			"tier":        m.Tier,
			"seed":        m.Seed,
			"level":       p.Level,
			"coverage":    cov,
			"assumptions": p.Assumptions,
			"wall_s":      time.Since(start).Seconds(),
			"violations":  len(real),
		}
		if p.Assumptions == nil {
			ev["assumptions"] = []string{}
		}
		os.MkdirAll(filepath.Join(outDir, "evidence"), 0o755)
		b, _ := json.MarshalIndent(ev, "", " ")
		ioutil.WriteFile(filepath.Join(outDir, "evidence", p.ID+".json"), append(b, '\n'), 0o644)
	}
	fmt.Printf("RESULT property=%s tier=%s seed=%d cases=%d/%d evaluations=%d distinct_nontrivial=%d violations=%d known=%d inconclusive=%d wall=%.1fs\n",
		p.ID, m.Tier, m.Seed, m.Executed, m.Cases, m.Evaluations, len(m.Fingerprints), len(real), len(knownSeen), len(m.Inconclusive), time.Since(start).Seconds())
	return exit
}

func firstLine(s string) string {
	if i := strings.Index(s, "\n"); i >= 0 {
		s = s[:i]
	}
	if len(s) > 400 {
		s = s[:400] + "..."
	}
	return s
}
