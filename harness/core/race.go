package core

import (
	"fmt"
	"io/ioutil"
	"path/filepath"
	"regexp"
	"sort"
	"strings"
)

// collectRaces parses the race detector logs written by the -race children
// (GORACE log_path=<prefix> → files <prefix>.<pid>), de-duplicates the reports by the pair of
// top frames that belong to the repository (line numbers stripped) and turns each distinct pair
// into one violation. The only exclusion: both accessing stacks lie entirely in
// github.com/massnetorg/mass-core/logging (third-party logger racing with itself, DESIGN.md §1).
func collectRaces(m *Merged, workDir string, prefixes []string) {
	blocks := 0
	distinct := map[string]string{}
	excluded := 0
	thirdParty := map[string]int{}
	for _, pre := range prefixes {
		files, _ := filepath.Glob(pre + ".*")
		for _, f := range files {
			b, err := ioutil.ReadFile(f)
			if err != nil {
				continue
			}
			for _, blk := range strings.Split(string(b), "==================") {
				if !strings.Contains(blk, "WARNING: DATA RACE") {
					continue
				}
				blocks++
				sig, onlyLogging, bothDriven := raceSignature(blk)
				if onlyLogging {
					excluded++
					continue
				}
				if parts := strings.Split(sig, " | "); len(parts) == 2 && strings.HasPrefix(parts[0], "[") && strings.HasPrefix(parts[1], "[") && !bothDriven {
					// neither access is made by wallet code: both accessors are functions of a
					// third-party library (or of the harness) working on that library's own memory,
					// and at least one of them was not called by wallet code. (When both library
					// calls are made by wallet code - the wallet drives one object of the library
					// from two goroutines without ordering them - the report is the wallet's.)
					thirdParty[sig]++
					continue
				}
				if _, ok := distinct[sig]; !ok {
					distinct[sig] = blk
				}
			}
		}
	}
	m.Extra["race_report_blocks"] = blocks
	m.Extra["race_reports_excluded_logging_only"] = excluded
	m.Extra["race_distinct_pairs"] = len(distinct)
	m.Extra["race_reports_between_third_party_accessors"] = thirdParty
	sigs := []string{}
	for s := range distinct {
		sigs = append(sigs, s)
	}
	sort.Strings(sigs)
	for _, s := range sigs {
		m.Violations = append(m.Violations, Violation{Signature: "race:" + s, Message: "data race reported by the Go race detector: " + s,
			Witness: trimStack(distinct[s]), Case: -1})
	}
}

var frameRe = regexp.MustCompile(`(?m)^  ([^\s(][^\n(]*)\(`)

// raceSignature returns "<frameA> | <frameB>" where frame = first repository function of each of
// the two access stacks (falls back to the first function at all), and whether all frames of both
// access stacks above the goroutine creation are in mass-core/logging.
func raceSignature(blk string) (string, bool, bool) {
	// split into sections; access sections start with "Write at", "Read at", "Previous write at", "Previous read at"
	lines := strings.Split(blk, "\n")
	type sec struct {
		head   string
		frames []string
	}
	var secs []sec
	for _, l := range lines {
		if strings.HasSuffix(l, ":") && !strings.HasPrefix(l, "  ") && strings.TrimSpace(l) != "" {
			secs = append(secs, sec{head: l})
			continue
		}
		if len(secs) > 0 && strings.HasPrefix(l, "  ") && !strings.HasPrefix(l, "      ") {
			fn := strings.TrimSpace(l)
			if i := strings.LastIndex(fn, "("); i > 0 {
				fn = fn[:i]
			}
			secs[len(secs)-1].frames = append(secs[len(secs)-1].frames, fn)
		}
	}
	var access []sec
	for _, s := range secs {
		h := strings.ToLower(s.head)
		if strings.Contains(h, "read at") || strings.Contains(h, "write at") {
			access = append(access, s)
		}
	}
	// pick: the accessor (first frame that is not Go runtime/sync: the function whose code touches
	// the memory), the first wallet frame above the harness entry (for the signature; frames below
	// the first harness frame are ignored, race logs sometimes carry stale frames there), and
	// whether the access happened inside the third-party logger.
	pick := func(s sec) (string, bool, bool) {
		inLogger := false
		for _, f := range s.frames {
			if strings.Contains(f, "mass-core/logging") || strings.Contains(f, "sirupsen/logrus") {
				inLogger = true
				break
			}
			if strings.HasPrefix(f, "massnet.org/") || strings.HasPrefix(f, "verifharness/") || strings.Contains(f, "massnetorg/mass-core/") {
				break
			}
		}
		accessor := ""
		for _, f := range s.frames {
			if !strings.HasPrefix(f, "runtime.") && !strings.HasPrefix(f, "sync.") && !strings.HasPrefix(f, "sync/atomic.") && !strings.HasPrefix(f, "internal/") {
				accessor = f
				break
			}
		}
		first := ""
		for _, f := range s.frames {
			if strings.HasPrefix(f, "verifharness/props.") || strings.HasPrefix(f, "verifharness/core.") {
				break
			}
			if strings.HasPrefix(f, "massnet.org/mass-wallet/") {
				first = f
				break
			}
		}
		driven := first != ""
		if first == "" {
			first = accessor
		}
		if !strings.HasPrefix(accessor, "massnet.org/mass-wallet/") {
			first = "[" + accessor + "] " + first
		}
		return first, inLogger, driven
	}
	if len(access) < 2 {
		return fmt.Sprintf("unparsed:%d", len(blk)), false, false
	}
	a, la, da := pick(access[0])
	b, lb, db := pick(access[1])
	if a > b {
		a, b = b, a
	}
	return a + " | " + b, la && lb, da && db
}
