// Package core is the shared runner of the runtime-monitoring checks: seeded case lists,
// child-process batches with a per-case journal, three-valued verdicts, evidence and replay
// files, known-finding matching.
package core

import (
	"encoding/json"
	"fmt"
	"hash/fnv"
	"io/ioutil"
	"os"
	"os/exec"
	"path/filepath"
	"runtime"
	"runtime/debug"
	"sort"
	"strconv"
	"strings"
	"sync"
	"time"
)

// ---------------------------------------------------------------------------------------
// PRNG (splitmix64): every random choice of every check comes from here, so that a case is
// a pure function of (VERIF_SEED, property id, tier, case index).

type Rand struct{ s uint64 }

func NewRand(seed uint64) *Rand { return &Rand{s: seed} }

func (r *Rand) Uint64() uint64 {
	r.s += 0x9e3779b97f4a7c15
	z := r.s
	z = (z ^ (z >> 30)) * 0xbf58476d1ce4e5b9
	z = (z ^ (z >> 27)) * 0x94d049bb133111eb
	return z ^ (z >> 31)
}

func (r *Rand) Intn(n int) int {
	if n <= 0 {
		return 0
	}
	return int(r.Uint64() % uint64(n))
}

// Range returns a value in [lo,hi].
func (r *Rand) Range(lo, hi int) int {
	if hi <= lo {
		return lo
	}
	return lo + r.Intn(hi-lo+1)
}

func (r *Rand) Bool() bool        { return r.Uint64()&1 == 1 }
func (r *Rand) Chance(p int) bool { return r.Intn(100) < p } // p percent

func (r *Rand) Bytes(n int) []byte {
	b := make([]byte, n)
	for i := 0; i < n; i += 8 {
		v := r.Uint64()
		for j := 0; j < 8 && i+j < n; j++ {
			b[i+j] = byte(v >> (8 * uint(j)))
		}
	}
	return b
}

// Pick returns a weighted index.
func (r *Rand) Pick(weights ...int) int {
	t := 0
	for _, w := range weights {
		t += w
	}
	x := r.Intn(t)
	for i, w := range weights {
		if x < w {
			return i
		}
		x -= w
	}
	return len(weights) - 1
}

func hashStr(s string) uint64 {
	h := fnv.New64a()
	h.Write([]byte(s))
	return h.Sum64()
}

// CaseRand derives the generator of one case.
func CaseRand(seed int64, prop string, tier string, idx int) *Rand {
	r := NewRand(uint64(seed)*0x9e3779b97f4a7c15 ^ hashStr(prop+"/"+tier) ^ (uint64(idx)+1)*0xd1342543de82ef95)
	r.Uint64()
	return r
}

// ---------------------------------------------------------------------------------------
// Case results

type Violation struct {
	Signature string      `json:"signature"` // stable identification (used by known_findings.json)
	Message   string      `json:"message"`
	Witness   interface{} `json:"witness,omitempty"`
	Case      int         `json:"case"`
}

// CaseResult is what running one case produced.
type CaseResult struct {
	Index        int                 `json:"index"`
	Evaluations  int                 `json:"evaluations"`            // oracle evaluations inside the case
	Fingerprints []string            `json:"fingerprints,omitempty"` // distinct non-trivial fingerprints
	Counters     map[string]int      `json:"counters,omitempty"`
	Sets         map[string][]string `json:"sets,omitempty"` // named sets of distinct observed things
	Sample       interface{}         `json:"sample,omitempty"`
	Violations   []Violation         `json:"violations,omitempty"`
	Inconclusive []string            `json:"inconclusive,omitempty"`
	Fatal        string              `json:"fatal,omitempty"`   // harness fault
	Recycle      bool                `json:"recycle,omitempty"` // a goroutine of this case may still be running: the child process ends after it
}

// T is handed to a case.
type T struct {
	Prop   string
	Tier   string
	Seed   int64
	Index  int
	R      *Rand
	Dir    string // scratch directory of this case (removed afterwards)
	Replay bool
	res    *CaseResult
	fpset  map[string]struct{}
	mu     sync.Mutex
}

func (t *T) Eval(n int) { t.mu.Lock(); t.res.Evaluations += n; t.mu.Unlock() }

// Nontrivial records a fingerprint of a distinct non-trivial case (see the property's rule).
func (t *T) Nontrivial(fp string) {
	t.mu.Lock()
	defer t.mu.Unlock()
	if _, ok := t.fpset[fp]; !ok {
		t.fpset[fp] = struct{}{}
		t.res.Fingerprints = append(t.res.Fingerprints, fp)
	}
}

func (t *T) Count(name string, n int) {
	t.mu.Lock()
	if t.res.Counters == nil {
		t.res.Counters = map[string]int{}
	}
	t.res.Counters[name] += n
	t.mu.Unlock()
}

// Max keeps the maximum of a counter.
func (t *T) Max(name string, n int) {
	t.mu.Lock()
	if t.res.Counters == nil {
		t.res.Counters = map[string]int{}
	}
	if n > t.res.Counters["max:"+name] {
		t.res.Counters["max:"+name] = n
	}
	t.mu.Unlock()
}

func (t *T) Observe(set, item string) {
	t.mu.Lock()
	defer t.mu.Unlock()
	if t.res.Sets == nil {
		t.res.Sets = map[string][]string{}
	}
	for _, x := range t.res.Sets[set] {
		if x == item {
			return
		}
	}
	if len(t.res.Sets[set]) < 400 {
		t.res.Sets[set] = append(t.res.Sets[set], item)
	}
}

func (t *T) Sample(x interface{}) {
	t.mu.Lock()
	if t.res.Sample == nil {
		t.res.Sample = x
	}
	t.mu.Unlock()
}

func (t *T) Violate(signature, msg string, witness interface{}) {
	t.mu.Lock()
	defer t.mu.Unlock()
	if len(t.res.Violations) < 20 {
		t.res.Violations = append(t.res.Violations, Violation{Signature: signature, Message: msg, Witness: witness, Case: t.Index})
	}
}

func (t *T) Violatef(signature string, witness interface{}, format string, a ...interface{}) {
	t.Violate(signature, fmt.Sprintf(format, a...), witness)
}

// Recycle asks for the child process to be replaced after this case (a goroutine the case could
// not stop - a request that never returns - must not go on burning CPU and memory).
func (t *T) Recycle() {
	t.mu.Lock()
	t.res.Recycle = true
	t.mu.Unlock()
}

func (t *T) Inconclusive(msg string) {
	t.mu.Lock()
	t.res.Inconclusive = append(t.res.Inconclusive, msg)
	t.mu.Unlock()
}

func (t *T) Failed() bool {
	t.mu.Lock()
	defer t.mu.Unlock()
	return len(t.res.Violations) > 0
}

// HarnessFault aborts the case as a harness problem (exit 2 at the end, never a VIOLATION).
type harnessFault struct{ msg string }

func (t *T) Fatalf(format string, a ...interface{}) {
	panic(harnessFault{fmt.Sprintf(format, a...)})
}

// ---------------------------------------------------------------------------------------
// Property registry

type Property struct {
	ID    string
	Level string // exploration | fault_enumeration
	Rule  string
	// Cases returns the number of cases of the tier (a function of tier and seed only).
	Cases func(tier string, seed int64) int
	// Run executes case idx.
	Run func(t *T)
	// Race: a -race build is needed; UseRace tells which cases run under it.
	Race    bool
	UseRace func(tier string, idx int) bool
	// Serial: cases must not run in parallel children (e.g. cpu-bound timing); default parallel.
	MaxProcs int
	// PanicIsViolation: a panic raised inside Run (from repo code) is a violation of this
	// property (otherwise it is reported as violation with signature "panic:<top repo frame>" too,
	// because the unchanged tree must not panic under any workload of the harness).
	Assumptions []string
	// Finish can post-process merged results (e.g. exhaustive flags).
	Finish func(m *Merged)
	// CaseTimeout: wall-clock watchdog per case (inconclusive when fired); default 120s.
	CaseTimeout time.Duration
}

var registry = map[string]*Property{}

func Register(p *Property) { registry[p.ID] = p }

func Lookup(id string) *Property { return registry[id] }

func IDs() []string {
	var ids []string
	for k := range registry {
		ids = append(ids, k)
	}
	sort.Strings(ids)
	return ids
}

// ---------------------------------------------------------------------------------------
// Known findings

type Finding struct {
	Property  string `json:"property"`
	Status    string `json:"status"` // open | fixed
	Signature string `json:"signature"`
	What      string `json:"what"`
	Commit    string `json:"commit,omitempty"`
}

func LoadFindings(verifDir string) []Finding {
	var fs []Finding
	b, err := ioutil.ReadFile(filepath.Join(verifDir, "known_findings.json"))
	if err != nil {
		return nil
	}
	var doc struct {
		Findings []Finding `json:"findings"`
	}
	if json.Unmarshal(b, &doc) == nil {
		fs = doc.Findings
	}
	return fs
}

// ---------------------------------------------------------------------------------------
// Running

type Merged struct {
	Prop         *Property
	Tier         string
	Seed         int64
	Cases        int
	Executed     int
	Evaluations  int
	Fingerprints map[string]struct{}
	Counters     map[string]int
	Sets         map[string]map[string]struct{}
	Samples      []interface{}
	Violations   []Violation
	Inconclusive []string
	Fatals       []string
	Extra        map[string]interface{}
	Exhaustive   *bool
}

func runOne(p *Property, tier string, seed int64, idx int, workDir string, replay bool) (res CaseResult) {
	res.Index = idx
	t := &T{Prop: p.ID, Tier: tier, Seed: seed, Index: idx, R: CaseRand(seed, p.ID, tier, idx), res: &res,
		fpset: map[string]struct{}{}, Replay: replay}
	t.Dir = filepath.Join(workDir, fmt.Sprintf("case-%d-%d", os.Getpid(), idx))
	os.MkdirAll(t.Dir, 0o755)
	defer os.RemoveAll(t.Dir)
	done := make(chan struct{})
	go func() {
		defer close(done)
		defer func() {
			if e := recover(); e != nil {
				if hf, ok := e.(harnessFault); ok {
					res.Fatal = hf.msg
					return
				}
				st := string(debug.Stack())
				frame := topRepoFrame(st)
				t.Violate("panic:"+frame, fmt.Sprintf("panic while running the case: %v", e), trimStack(st))
			}
		}()
		p.Run(t)
	}()
	to := p.CaseTimeout
	if to == 0 {
		to = 180 * time.Second
	}
	select {
	case <-done:
	case <-time.After(to):
		buf := make([]byte, 1<<20)
		n := runtime.Stack(buf, true)
		t.mu.Lock()
		res.Inconclusive = append(res.Inconclusive, fmt.Sprintf("case %d: watchdog after %s (not a verdict); goroutines:\n%s", idx, to, trimStack(string(buf[:n]))))
		t.mu.Unlock()
		// the goroutine is abandoned; the child process exits after its batch
	}
	t.mu.Lock()
	defer t.mu.Unlock()
	cp := res
	return cp
}

func topRepoFrame(stack string) string {
	lines := strings.Split(stack, "\n")
	for _, l := range lines {
		l = strings.TrimSpace(l)
		if strings.HasPrefix(l, "massnet.org/mass-wallet/") {
			if i := strings.Index(l, "("); i > 0 {
				l = l[:i]
			}
			return l
		}
	}
	for _, l := range lines {
		l = strings.TrimSpace(l)
		if strings.HasPrefix(l, "github.com/massnetorg/mass-core/") {
			if i := strings.Index(l, "("); i > 0 {
				l = l[:i]
			}
			return l
		}
	}
	return "unknown"
}

func trimStack(s string) string {
	if len(s) > 6000 {
		return s[:6000] + "\n...[truncated]"
	}
	return s
}

// ChildMain runs the cases listed (one index per line) in idxFile and writes results as JSON lines.
func ChildMain(id, tier string, seed int64, idxFile string, outPath, workDir string) int {
	p := Lookup(id)
	if p == nil {
		fmt.Fprintln(os.Stderr, "unknown property", id)
		return 2
	}
	ib, err := ioutil.ReadFile(idxFile)
	if err != nil {
		fmt.Fprintln(os.Stderr, err)
		return 2
	}
	var indices []int
	for _, f := range strings.Fields(string(ib)) {
		if x, err := strconv.Atoi(f); err == nil {
			indices = append(indices, x)
		}
	}
	f, err := os.OpenFile(outPath, os.O_CREATE|os.O_WRONLY|os.O_APPEND, 0o644)
	if err != nil {
		fmt.Fprintln(os.Stderr, err)
		return 2
	}
	defer f.Close()
	journal, _ := os.OpenFile(outPath+".journal", os.O_CREATE|os.O_WRONLY|os.O_APPEND, 0o644)
	defer journal.Close()
	skip := skipSet()
	for _, idx := range indices {
		if skip[idx] {
			continue
		}
		fmt.Fprintf(journal, "start %d\n", idx)
		res := runOne(p, tier, seed, idx, workDir, false)
		b, _ := json.Marshal(res)
		f.Write(append(b, '\n'))
		fmt.Fprintf(journal, "done %d\n", idx)
		if res.Recycle || len(res.Inconclusive) > 0 && strings.Contains(strings.Join(res.Inconclusive, " "), "watchdog") {
			// a goroutine of the abandoned case may still be running: recycle the process
			fmt.Fprintf(journal, "recycle-after %d\n", idx)
			return 3
		}
	}
	return 0
}

func envInt(name string, def int64) int64 {
	if v := os.Getenv(name); v != "" {
		if x, err := strconv.ParseInt(v, 10, 64); err == nil {
			return x
		}
	}
	return def
}

type RunOpts struct {
	VerifDir   string
	ID         string
	Tier       string
	Seed       int64
	Binary     string // path of the binary to re-exec; default os.Args[0]
	RaceBinary string // -race build of the same program (for properties with Race set)
	Procs      int
	OnlyCase   int // >=0: run exactly this case in-process (replay)
	ExtraEnv   []string
}

// RunParent splits the case list over child processes and merges.
func RunParent(o RunOpts) (*Merged, error) {
	p := Lookup(o.ID)
	if p == nil {
		return nil, fmt.Errorf("unknown property %s", o.ID)
	}
	total := p.Cases(o.Tier, o.Seed)
	m := &Merged{Prop: p, Tier: o.Tier, Seed: o.Seed, Cases: total, Fingerprints: map[string]struct{}{},
		Counters: map[string]int{}, Sets: map[string]map[string]struct{}{}, Extra: map[string]interface{}{}}
	workDir := filepath.Join(o.VerifDir, "work", fmt.Sprintf("%s-%d", o.ID, os.Getpid()))
	os.MkdirAll(workDir, 0o755)
	if os.Getenv("VERIF_KEEP") == "" {
		defer os.RemoveAll(workDir)
	}

	onlyRaced := o.OnlyCase >= 0 && p.Race && p.UseRace != nil && p.UseRace(o.Tier, o.OnlyCase) && o.RaceBinary != ""
	if o.OnlyCase >= 0 && !onlyRaced {
		res := runOne(p, o.Tier, o.Seed, o.OnlyCase, workDir, true)
		m.absorb(res)
		return m, nil
	}

	procs := o.Procs
	if procs <= 0 {
		procs = runtime.NumCPU()
	}
	if p.MaxProcs > 0 && procs > p.MaxProcs {
		procs = p.MaxProcs
	}
	bin := o.Binary
	if bin == "" {
		bin = os.Args[0]
	}
	// partition the case list
	var normal, raced []int
	for idx := 0; idx < total; idx++ {
		if onlyRaced && idx != o.OnlyCase {
			continue // a single case that runs under the race detector: child process with the -race binary
		}
		if p.Race && p.UseRace != nil && p.UseRace(o.Tier, idx) && o.RaceBinary != "" {
			raced = append(raced, idx)
		} else {
			normal = append(normal, idx)
		}
	}
	type job struct {
		bin     string
		indices []int
		race    bool
	}
	var jobs []job
	split := func(list []int, n int, b string, race bool) {
		if len(list) == 0 {
			return
		}
		if n > len(list) {
			n = len(list)
		}
		if n < 1 {
			n = 1
		}
		parts := make([][]int, n)
		for i, idx := range list {
			parts[i%n] = append(parts[i%n], idx)
		}
		for _, part := range parts {
			jobs = append(jobs, job{b, part, race})
		}
	}
	nRace := 0
	if len(raced) > 0 {
		nRace = procs * len(raced) * 4 / (len(raced)*4 + len(normal) + 1)
		if nRace < 1 {
			nRace = 1
		}
		if len(normal) == 0 {
			nRace = procs
		}
	}
	nNorm := procs - nRace
	if nNorm < 1 {
		nNorm = 1
	}
	split(normal, nNorm, bin, false)
	split(raced, nRace, o.RaceBinary, true)

	var wg sync.WaitGroup
	var mu sync.Mutex
	raceLogs := []string{}
	for k, jb := range jobs {
		wg.Add(1)
		go func(k int, jb job) {
			defer wg.Done()
			out := filepath.Join(workDir, fmt.Sprintf("child-%d.jsonl", k))
			idxFile := filepath.Join(workDir, fmt.Sprintf("child-%d.idx", k))
			var sb strings.Builder
			for _, idx := range jb.indices {
				fmt.Fprintf(&sb, "%d\n", idx)
			}
			ioutil.WriteFile(idxFile, []byte(sb.String()), 0o644)
			raceLog := filepath.Join(workDir, fmt.Sprintf("race-%d", k))
			if jb.race {
				mu.Lock()
				raceLogs = append(raceLogs, raceLog)
				mu.Unlock()
			}
			doneSet := map[int]bool{}
			for attempt := 0; attempt < 1000; attempt++ {
				remaining := 0
				for _, idx := range jb.indices {
					if !doneSet[idx] {
						remaining++
					}
				}
				if remaining == 0 {
					return
				}
				os.Remove(out)
				os.Remove(out + ".journal")
				skip := []string{}
				for idx := range doneSet {
					skip = append(skip, strconv.Itoa(idx))
				}
				cmd := exec.Command(jb.bin, "child", o.ID, o.Tier, strconv.FormatInt(o.Seed, 10), idxFile, out, workDir)
				cmd.Env = append(os.Environ(), "VERIF_SKIP="+strings.Join(skip, ","))
				if jb.race {
					cmd.Env = append(cmd.Env, "GORACE=halt_on_error=0 history_size=5 log_path="+raceLog, "VERIF_RACE=1")
				}
				cmd.Env = append(cmd.Env, o.ExtraEnv...)
				logf, _ := os.OpenFile(out+".log", os.O_CREATE|os.O_WRONLY|os.O_TRUNC, 0o644)
				cmd.Stdout = logf
				cmd.Stderr = logf
				err := cmd.Run()
				logf.Close()
				b, _ := ioutil.ReadFile(out)
				mu.Lock()
				for _, line := range strings.Split(string(b), "\n") {
					if strings.TrimSpace(line) == "" {
						continue
					}
					var res CaseResult
					if json.Unmarshal([]byte(line), &res) == nil {
						if !doneSet[res.Index] {
							doneSet[res.Index] = true
							m.absorb(res)
						}
					}
				}
				mu.Unlock()
				if err == nil {
					return
				}
				jbuf, _ := ioutil.ReadFile(out + ".journal")
				last := -1
				for _, l := range strings.Split(string(jbuf), "\n") {
					var x int
					if n, _ := fmt.Sscanf(l, "start %d", &x); n == 1 {
						last = x
					}
				}
				if last >= 0 && !doneSet[last] {
					lb, _ := ioutil.ReadFile(out + ".log")
					logTxt := string(lb)
					doneSet[last] = true
					mu.Lock()
					m.Executed++
					frame := topRepoFrame(logTxt)
					m.Violations = append(m.Violations, Violation{
						Signature: "crash:" + frame,
						Message:   fmt.Sprintf("child process died while running case %d: %v", last, err),
						Witness:   tail(logTxt, 8000), Case: last})
					mu.Unlock()
				} else if last < 0 {
					// died before the first case: harness fault
					lb, _ := ioutil.ReadFile(out + ".log")
					mu.Lock()
					m.Fatals = append(m.Fatals, fmt.Sprintf("child %d died before its first case: %v: %s", k, err, tail(string(lb), 2000)))
					mu.Unlock()
					return
				}
			}
		}(k, jb)
	}
	wg.Wait()
	if len(raceLogs) > 0 {
		collectRaces(m, workDir, raceLogs)
	}
	return m, nil
}

func tail(s string, n int) string {
	if len(s) > n {
		return "...[truncated]\n" + s[len(s)-n:]
	}
	return s
}

func (m *Merged) absorb(res CaseResult) {
	m.Executed++
	m.Evaluations += res.Evaluations
	for _, fp := range res.Fingerprints {
		m.Fingerprints[fp] = struct{}{}
	}
	for k, v := range res.Counters {
		if strings.HasPrefix(k, "max:") {
			if v > m.Counters[k] {
				m.Counters[k] = v
			}
		} else {
			m.Counters[k] += v
		}
	}
	for k, items := range res.Sets {
		if m.Sets[k] == nil {
			m.Sets[k] = map[string]struct{}{}
		}
		for _, it := range items {
			m.Sets[k][it] = struct{}{}
		}
	}
	if res.Sample != nil && len(m.Samples) < 4 {
		m.Samples = append(m.Samples, res.Sample)
	}
	m.Violations = append(m.Violations, res.Violations...)
	m.Inconclusive = append(m.Inconclusive, res.Inconclusive...)
	if res.Fatal != "" {
		m.Fatals = append(m.Fatals, fmt.Sprintf("case %d: %s", res.Index, res.Fatal))
	}
}

// SkipSet is consulted by ChildMain through the environment (cases already done by an
// earlier incarnation of this child).
func skipSet() map[int]bool {
	s := map[int]bool{}
	for _, f := range strings.Split(os.Getenv("VERIF_SKIP"), ",") {
		if x, err := strconv.Atoi(f); err == nil {
			s[x] = true
		}
	}
	return s
}
