// vh — runner of the runtime-monitoring checks (see /verif/DESIGN.md).
//
//	vh run <ID> <quick|thorough> [--replay file] [--case n] [--procs n]
//	vh child <ID> <tier> <seed> <k> <n> <out> <workdir>      (internal)
package main

import (
	"encoding/json"
	"fmt"
	"io/ioutil"
	"os"
	"strconv"
	"time"

	"verifharness/core"
	_ "verifharness/props"
)

func main() {
	if len(os.Args) < 2 {
		fmt.Println("usage: vh run <ID> <tier> | vh list")
		os.Exit(2)
	}
	switch os.Args[1] {
	case "list":
		for _, id := range core.IDs() {
			fmt.Println(id)
		}
	case "needrace":
		if p := core.Lookup(os.Args[2]); p != nil && p.Race {
			fmt.Println("yes")
		} else {
			fmt.Println("no")
		}
	case "child":
		a := os.Args[2:]
		seed, _ := strconv.ParseInt(a[2], 10, 64)
		os.Exit(core.ChildMain(a[0], a[1], seed, a[3], a[4], a[5]))
	case "run":
		start := time.Now()
		id, tier := os.Args[2], os.Args[3]
		seed := int64(1)
		if v := os.Getenv("VERIF_SEED"); v != "" {
			if x, err := strconv.ParseInt(v, 10, 64); err == nil {
				seed = x
			}
		}
		verifDir := os.Getenv("VERIF_DIR")
		if verifDir == "" {
			verifDir = "/verif"
		}
		o := core.RunOpts{VerifDir: verifDir, ID: id, Tier: tier, Seed: seed, OnlyCase: -1}
		writeEv := true
		for i := 4; i < len(os.Args); i++ {
			switch os.Args[i] {
			case "--replay":
				i++
				b, err := ioutil.ReadFile(os.Args[i])
				if err != nil {
					fmt.Println(err)
					os.Exit(2)
				}
				var doc struct {
					Tier string `json:"tier"`
					Seed int64  `json:"seed"`
					Case int    `json:"case"`
				}
				if err := json.Unmarshal(b, &doc); err != nil {
					fmt.Println(err)
					os.Exit(2)
				}
				o.Tier, o.Seed, o.OnlyCase = doc.Tier, doc.Seed, doc.Case
				writeEv = false
			case "--case":
				i++
				o.OnlyCase, _ = strconv.Atoi(os.Args[i])
				writeEv = false
			case "--procs":
				i++
				o.Procs, _ = strconv.Atoi(os.Args[i])
			case "--binary":
				i++
				o.Binary = os.Args[i]
			case "--racebinary":
				i++
				o.RaceBinary = os.Args[i]
			}
		}
		m, err := core.RunParent(o)
		if err != nil {
			fmt.Println(err)
			os.Exit(2)
		}
		os.Exit(core.Report(verifDir, m, start, writeEv))
	}
}
