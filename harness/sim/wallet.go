package sim

import (
	"fmt"
	"math"
	"os"
	"path/filepath"
	"reflect"
	"runtime"
	"sort"
	"strings"
	"sync"
	"sync/atomic"
	"time"

	"github.com/massnetorg/mass-core/logging"
	"github.com/massnetorg/mass-core/massutil"
	"github.com/massnetorg/mass-core/wire"
	"github.com/sirupsen/logrus"
	"massnet.org/mass-wallet/api"
	"massnet.org/mass-wallet/config"
	"massnet.org/mass-wallet/masswallet"
	mwdb "massnet.org/mass-wallet/masswallet/db"
	_ "massnet.org/mass-wallet/masswallet/db/ldb"
	"massnet.org/mass-wallet/masswallet/keystore"
)

const PubPass = "pubPass123"

var initOnce sync.Once

// FatalEvents collects logging.CPrint(FATAL…) events (which end in logrus os.Exit(1)): the exit
// handler records the event and ends only the calling goroutine.
var (
	fatalMu     sync.Mutex
	fatalEvents []string
)

func FatalEvents() []string {
	fatalMu.Lock()
	defer fatalMu.Unlock()
	return append([]string{}, fatalEvents...)
}

func ResetFatalEvents() {
	fatalMu.Lock()
	fatalEvents = nil
	fatalMu.Unlock()
}

// InitProcess prepares the process-wide state (logger, scrypt cost, exit monitor).
func InitProcess(scratch string) {
	initOnce.Do(func() {
		os.MkdirAll(scratch, 0o755)
		level := "error"
		if l := os.Getenv("VERIF_LOGLEVEL"); l != "" {
			level = l // debugging aid: the wallet's own log at another level (kept with VERIF_KEEP=1)
		}
		logging.Init(scratch, "verif", level, 1, true)
		keystore.DefaultScryptOptions = keystore.ScryptOptions{N: 16, R: 8, P: 1}
		logrus.RegisterExitHandler(func() {
			buf := make([]byte, 1<<16)
			n := runtime.Stack(buf, false)
			fatalMu.Lock()
			fatalEvents = append(fatalEvents, string(buf[:n]))
			fatalMu.Unlock()
			runtime.Goexit()
		})
		// memory guard: the sandbox has no memory limit. A case whose wallet code allocates without
		// bound (a request that derives 2^32 addresses) must not take the machine down: the child
		// process ends itself, the parent attributes the death to the running case.
		go func() {
			var ms runtime.MemStats
			for {
				time.Sleep(500 * time.Millisecond)
				runtime.ReadMemStats(&ms)
				if ms.Sys > 10<<30 {
					buf := make([]byte, 1<<20)
					n := runtime.Stack(buf, true)
					fmt.Fprintf(os.Stderr, "MEMORY GUARD: the process holds %d MiB (limit 10240): a wallet goroutine allocates without bound\n%s\n", ms.Sys>>20, buf[:n])
					os.Exit(4)
				}
			}
		}()
	})
}

// Points counts verifPoint hits (progress counters and schedule control).
//
// The counters must not synchronise the wallet's goroutines with each other: a mutex shared by the
// follower and the worker at every yield point would add happens-before edges that production code
// does not have and hide data races from the race detector. Every known point has its own atomic
// counter (a point is hit by one wallet goroutine only); the callback is read through an atomic
// pointer that only the harness writes.
type Points struct {
	known [len(pointNames)]int64
	loop  int64
	fn    atomic.Value // func(string) wrapper
	mu    sync.Mutex   // unknown names only
	other map[string]int64
}

var pointNames = [...]string{"handle.loop", "handle.suspended", "block.committed", "worker.loop", "worker.task", "import.begin", "remove.round",
	"suspend.before", "suspend.after", "resume.before", "resume.after", "stop.quitclosed", "stop.joined"}

type pointFn struct{ f func(string) }

func pointIndex(name string) int {
	for i, n := range pointNames {
		if n == name {
			return i
		}
	}
	return -1
}

func (p *Points) hit(name string) {
	if name == "handle.loop" {
		atomic.AddInt64(&p.loop, 1)
	}
	if i := pointIndex(name); i >= 0 {
		atomic.AddInt64(&p.known[i], 1)
	} else {
		p.mu.Lock()
		if p.other == nil {
			p.other = map[string]int64{}
		}
		p.other[name]++
		p.mu.Unlock()
	}
	if v := p.fn.Load(); v != nil {
		if f := v.(pointFn).f; f != nil {
			f(name)
		}
	}
}

func (p *Points) Count(name string) int64 {
	if i := pointIndex(name); i >= 0 {
		return atomic.LoadInt64(&p.known[i])
	}
	p.mu.Lock()
	defer p.mu.Unlock()
	return p.other[name]
}

func (p *Points) Loop() int64 { return atomic.LoadInt64(&p.loop) }

func (p *Points) SetFn(fn func(string)) { p.fn.Store(pointFn{fn}) }

// Wallet is one running wallet instance (WalletManager + API server) on a data directory.
type Wallet struct {
	Node    *Node
	Dir     string
	DB      *WDB
	W       *masswallet.WalletManager
	API     *api.APIServer
	Cfg     *config.Config
	Points  *Points
	started bool
	stopped bool
	sent    int64 // messages delivered to the handler since Start
	base    int64 // handle.loop count right after Start
}

func NewConfig(gapLimit uint32) *config.Config {
	cfg := &config.Config{Core: config.NewDefCoreConfig(), Wallet: config.NewDefWalletConfig()}
	if gapLimit > 0 {
		cfg.Wallet.Settings.AddressGapLimit = gapLimit
	}
	if cfg.Wallet.Settings.AddressGapLimit == 0 {
		cfg.Wallet.Settings.AddressGapLimit = config.DefaultAddressGapLimit
	}
	if cfg.Wallet.Settings.MaxTxFee == "" {
		cfg.Wallet.Settings.MaxTxFee = config.DefaultMaxTxFee
	}
	return cfg
}

// OpenWallet creates or opens the wallet database in dir and builds the manager (not started).
func OpenWallet(node *Node, dir string, cfg *config.Config) (*Wallet, error) {
	return OpenWalletPub(node, dir, cfg, PubPass)
}

// OpenWalletPub: as OpenWallet with an explicit public passphrase.
func OpenWalletPub(node *Node, dir string, cfg *config.Config, pubPass string) (*Wallet, error) {
	var inner mwdb.DB
	var err error
	if _, serr := os.Stat(filepath.Join(dir, "CURRENT")); serr == nil {
		inner, err = mwdb.OpenDB("leveldb", dir)
	} else {
		os.MkdirAll(filepath.Dir(dir), 0o755)
		inner, err = mwdb.CreateDB("leveldb", dir)
	}
	if err != nil {
		return nil, fmt.Errorf("open wallet db: %v", err)
	}
	w := &Wallet{Node: node, Dir: dir, DB: WrapDB(inner), Cfg: cfg, Points: &Points{}}
	w.W, err = masswallet.NewWalletManager(node, w.DB, cfg, config.ChainParams, pubPass)
	if err != nil {
		inner.Close()
		return nil, fmt.Errorf("NewWalletManager: %v", err)
	}
	w.API, err = api.NewAPIServer(node, w.W, func() {}, cfg)
	if err != nil {
		inner.Close()
		return nil, err
	}
	return w, nil
}

// BindPoints makes this instance the receiver of the hook points again (the hook is one per process:
// starting another instance takes it; call this after that other instance has been stopped).
func (w *Wallet) BindPoints() { masswallet.SetVerifPointHook(w.Points.hit) }

// Start runs WalletManager.Start (catch-up + goroutines).
func (w *Wallet) Start() error {
	masswallet.SetVerifPointHook(w.Points.hit)
	before := w.Node.listenerSnapshot()
	if err := w.W.Start(); err != nil {
		// WalletManager.Start registers its listener before the catch-up; a failed start leaves
		// it registered (the real process would exit): drop it so that announcements do not go
		// to a dead handler
		w.Node.dropListenersNotIn(before)
		return err
	}
	w.started = true
	return nil
}

// Stop runs WalletManager.Stop with a generous watchdog; returns false if it did not return.
func (w *Wallet) Stop(timeout time.Duration) bool {
	if w.stopped {
		return true
	}
	w.stopped = true
	done := make(chan struct{})
	go func() {
		defer close(done)
		w.W.Stop()
	}()
	select {
	case <-done:
		w.started = false
		return true
	case <-time.After(timeout):
		return false
	}
}

// CloseUnstarted closes the database of a wallet that was never started.
func (w *Wallet) CloseUnstarted() { w.DB.Close() }

// Deliver announces a block and counts the message.
func (w *Wallet) Deliver(b *Block) error {
	atomic.AddInt64(&w.sent, 1)
	return w.Node.Announce(b)
}

func (w *Wallet) DeliverTx(tx *wire.MsgTx) error {
	atomic.AddInt64(&w.sent, 1)
	return w.Node.AnnounceTx(tx)
}

// Quiesce waits until the handler has looped once more than the number of messages delivered
// (it is then idle in its select, every delivered message processed). Logical condition;
// the timeout only turns a hang into "inconclusive".
func (w *Wallet) Quiesce(timeout time.Duration) bool {
	deadline := time.Now().Add(timeout)
	for {
		// handle.loop is hit once at goroutine start and once after every processed message
		// (suspend/resume pairs add extra hits, which only makes the condition later-true).
		if w.Points.Loop() >= atomic.LoadInt64(&w.sent)+1+w.extraLoops() {
			return true
		}
		if w.DB.Frozen() && time.Now().After(deadline.Add(-timeout).Add(300*time.Millisecond)) {
			return false // simulated crash: nothing will make progress any more
		}
		if time.Now().After(deadline) {
			return false
		}
		time.Sleep(200 * time.Microsecond)
	}
}

// extraLoops: every completed suspend/resume hand-shake is one more loop iteration.
func (w *Wallet) extraLoops() int64 { return w.Points.Count("handle.suspended") }

// WorkerIdle waits until no wallet is importing or being removed.
func (w *Wallet) WorkerIdle(timeout time.Duration) bool {
	deadline := time.Now().Add(timeout)
	for {
		ws, err := w.W.Wallets()
		busy := false
		if err == nil {
			for _, s := range ws {
				if !s.Status.Ready() || s.Status.IsRemoved() {
					busy = true
				}
			}
		}
		if err == nil && !busy {
			return true
		}
		if w.DB.Frozen() {
			return false // simulated crash
		}
		if time.Now().After(deadline) {
			return false
		}
		time.Sleep(500 * time.Microsecond)
	}
}

// queuedTasks reads the length of the worker's task queue (unexported: WalletManager.ntfnsHandler.taskChan.C).
func (w *Wallet) queuedTasks() int {
	defer func() { recover() }()
	h := reflect.ValueOf(w.W).Elem().FieldByName("ntfnsHandler")
	if !h.IsValid() || h.IsNil() {
		return 0
	}
	tc := h.Elem().FieldByName("taskChan")
	if !tc.IsValid() || tc.IsNil() {
		return 0
	}
	c := tc.Elem().FieldByName("C")
	if !c.IsValid() || c.Kind() != reflect.Chan {
		return 0
	}
	return c.Len()
}

// WorkerParked waits until the background worker sits in its select with an empty queue (whatever the
// wallet statuses say): every task that was queued - also by an operation that reported failure - has run.
func (w *Wallet) WorkerParked(timeout time.Duration) bool {
	deadline := time.Now().Add(timeout)
	parked := func() bool {
		return w.queuedTasks() == 0 && w.Points.Count("worker.loop") == w.Points.Count("worker.task")+1
	}
	for {
		if parked() {
			time.Sleep(2 * time.Millisecond)
			if parked() {
				return true
			}
		}
		if w.DB.Frozen() || time.Now().After(deadline) {
			return false
		}
		time.Sleep(500 * time.Microsecond)
	}
}

// ---------------------------------------------------------------------------------------
// Observation record

type UtxoObs struct {
	Address        string
	TxID           string
	Vout           uint32
	Amount         int64
	Height         uint64
	Maturity       uint32
	Confirmations  uint32
	SpentByUnmined bool
}

type WalletObs struct {
	ID           string
	UseErr       string
	TotalBalance int64    // UseWallet.TotalBalance
	Bal          [4]int64 // total, spendable, withdrawable staking, withdrawable binding (detail query)
	BalNoDetail  int64
	Utxos        []UtxoObs
	AddrBal      map[string][4]int64
	Addresses    []string // "class:address:used"
	Staking      []string
	Binding      []string
	Ext, Int     int32
}

type Obs struct {
	SyncedTo uint64
	Wallets  []string // "id:ready|importing(h)|removing"
	W        map[string]*WalletObs
	Err      string
}

func amt(a massutil.Amount) int64 { return a.IntValue() }

// Observe collects everything a user can see about the given wallets through the manager API.
func (w *Wallet) Observe(ids []string) *Obs {
	o := &Obs{W: map[string]*WalletObs{}}
	var err error
	o.SyncedTo, err = w.W.SyncedTo()
	if err != nil {
		o.Err = "SyncedTo: " + err.Error()
		return o
	}
	ws, err := w.W.Wallets()
	if err != nil {
		o.Err = "Wallets: " + err.Error()
		return o
	}
	for _, s := range ws {
		st := "ready"
		if s.Status.IsRemoved() {
			st = "removing"
		} else if !s.Status.Ready() {
			st = fmt.Sprintf("importing(%d)", s.Status.SyncedHeight)
		}
		o.Wallets = append(o.Wallets, s.WalletID+":"+st)
	}
	sort.Strings(o.Wallets)
	for _, id := range ids {
		wo := &WalletObs{ID: id, AddrBal: map[string][4]int64{}}
		o.W[id] = wo
		info, err := w.W.UseWallet(id)
		if err != nil {
			wo.UseErr = err.Error()
			continue
		}
		wo.TotalBalance = amt(info.TotalBalance)
		wo.Ext, wo.Int = info.ExternalKeyCount, info.InternalKeyCount
		if wb, err := w.W.WalletBalance(0, true); err == nil {
			wo.Bal = [4]int64{amt(wb.Total), amt(wb.Spendable), amt(wb.WithdrawableStaking), amt(wb.WithdrawableBinding)}
		} else {
			wo.UseErr = "WalletBalance: " + err.Error()
		}
		if wb, err := w.W.WalletBalance(0, false); err == nil {
			wo.BalNoDetail = amt(wb.Total)
		}
		if m, err := w.W.GetUtxo(nil); err == nil {
			for addr, list := range m {
				for _, u := range list {
					wo.Utxos = append(wo.Utxos, UtxoObs{Address: addr, TxID: u.TxId, Vout: u.Vout, Amount: amt(u.Amount), Height: u.BlockHeight,
						Maturity: u.Maturity, Confirmations: u.Confirmations, SpentByUnmined: u.SpentByUnmined})
				}
			}
			sort.Slice(wo.Utxos, func(i, j int) bool {
				a, b := wo.Utxos[i], wo.Utxos[j]
				if a.TxID != b.TxID {
					return a.TxID < b.TxID
				}
				return a.Vout < b.Vout
			})
		} else {
			wo.UseErr = "GetUtxo: " + err.Error()
		}
		if abs, err := w.W.AddressBalance(0, nil); err == nil {
			for _, ab := range abs {
				wo.AddrBal[ab.Address] = [4]int64{amt(ab.Total), amt(ab.Spendable), amt(ab.WithdrawableStaking), amt(ab.WithdrawableBinding)}
			}
		} else {
			wo.UseErr = "AddressBalance: " + err.Error()
		}
		if ads, err := w.W.GetAddresses(math.MaxUint16); err == nil {
			for _, a := range ads {
				wo.Addresses = append(wo.Addresses, fmt.Sprintf("%d:%s:%v", a.AddressClass, a.Address, a.Used))
			}
			sort.Strings(wo.Addresses)
		} else {
			wo.UseErr = "GetAddresses: " + err.Error()
		}
		if hs, err := w.W.GetStakingHistory(false); err == nil {
			for _, h := range hs {
				wo.Staking = append(wo.Staking, fmt.Sprintf("%s:%d h=%d amt=%d addr=%s frozen=%d spent=%v sbu=%v", h.TxHash.String(), h.Index, h.BlockHeight,
					amt(h.Utxo.Amount), h.Utxo.Address, h.Utxo.FrozenPeriod, h.Utxo.Spent, h.Utxo.SpentByUnmined))
			}
			sort.Strings(wo.Staking)
		} else {
			wo.UseErr = "GetStakingHistory: " + err.Error()
		}
		if hs, err := w.W.GetBindingHistory(false); err == nil {
			for _, h := range hs {
				holder, target := "", ""
				if h.Utxo.Holder != nil {
					holder = h.Utxo.Holder.EncodeAddress()
				}
				if h.Utxo.BindingTarget != nil {
					target = h.Utxo.BindingTarget.EncodeAddress()
				}
				wo.Binding = append(wo.Binding, fmt.Sprintf("%s:%d h=%d amt=%d holder=%s target=%s spent=%v sbu=%v", h.TxHash.String(), h.Index, h.BlockHeight,
					amt(h.Utxo.Amount), holder, target, h.Utxo.Spent, h.Utxo.SpentByUnmined))
			}
			sort.Strings(wo.Binding)
		} else {
			wo.UseErr = "GetBindingHistory: " + err.Error()
		}
	}
	return o
}

// Diff returns human-readable differences between two observation records ("" if equal).
func (a *Obs) Diff(b *Obs) string {
	var d []string
	if a.Err != b.Err {
		d = append(d, fmt.Sprintf("err %q vs %q", a.Err, b.Err))
	}
	if a.SyncedTo != b.SyncedTo {
		d = append(d, fmt.Sprintf("syncedTo %d vs %d", a.SyncedTo, b.SyncedTo))
	}
	if strings.Join(a.Wallets, ",") != strings.Join(b.Wallets, ",") {
		d = append(d, fmt.Sprintf("wallets %v vs %v", a.Wallets, b.Wallets))
	}
	ids := map[string]bool{}
	for id := range a.W {
		ids[id] = true
	}
	for id := range b.W {
		ids[id] = true
	}
	for id := range ids {
		x, y := a.W[id], b.W[id]
		if x == nil || y == nil {
			d = append(d, fmt.Sprintf("wallet %s present %v vs %v", id, x != nil, y != nil))
			continue
		}
		sx, sy := fmt.Sprintf("%+v", *x), fmt.Sprintf("%+v", *y)
		if sx != sy {
			d = append(d, fmt.Sprintf("wallet %s: %s", id, firstDiff(sx, sy)))
		}
	}
	return strings.Join(d, "; ")
}

func firstDiff(a, b string) string {
	i := 0
	for i < len(a) && i < len(b) && a[i] == b[i] {
		i++
	}
	lo := i - 80
	if lo < 0 {
		lo = 0
	}
	ha, hb := i+160, i+160
	if ha > len(a) {
		ha = len(a)
	}
	if hb > len(b) {
		hb = len(b)
	}
	return fmt.Sprintf("…%s… VS …%s…", a[lo:ha], b[lo:hb])
}

// RawBucket reads all entries of a (nested) bucket through the real database underneath the
// interposer, e.g. RawBucket("t","m") = pending transactions.
func (w *Wallet) RawBucket(path ...string) (map[string][]byte, error) {
	out := map[string][]byte{}
	err := mwdb.View(w.DB.Inner, func(tx mwdb.ReadTransaction) error {
		b := tx.TopLevelBucket(path[0])
		for _, p := range path[1:] {
			if b == nil {
				break
			}
			b = b.Bucket(p)
		}
		if b == nil {
			return fmt.Errorf("bucket %v not found", path)
		}
		ents, err := b.GetByPrefix(nil)
		if err != nil {
			return err
		}
		for _, e := range ents {
			out[string(e.Key)] = e.Value
		}
		return nil
	})
	return out, err
}
