package sim

import (
	"sync"
	"sync/atomic"

	"github.com/massnetorg/mass-core/database"
	"github.com/massnetorg/mass-core/massutil"
	"github.com/massnetorg/mass-core/wire"
)

// CDB interposes on the handful of node-database calls the wallet makes, so that a rescan batch
// or a reorg walk can be held while the chain moves, or a call can be failed.
type CDB struct {
	database.Db
	mu   sync.Mutex
	hook func(method string) error
	n    map[string]int
	// passive: pure forwarding without the counting mutex (see WDB.SetPassive)
	passive int32
}

func (c *CDB) SetPassive(on bool) {
	v := int32(0)
	if on {
		v = 1
	}
	atomic.StoreInt32(&c.passive, v)
}

func WrapChainDB(inner database.Db) *CDB { return &CDB{Db: inner, n: map[string]int{}} }

func (c *CDB) SetHook(h func(method string) error) {
	c.mu.Lock()
	c.hook = h
	c.mu.Unlock()
}

// TotalCalls: number of interposed node-database calls so far.
func (c *CDB) TotalCalls() int64 {
	c.mu.Lock()
	defer c.mu.Unlock()
	var t int64
	for _, v := range c.n {
		t += int64(v)
	}
	return t
}

func (c *CDB) Calls(method string) int {
	c.mu.Lock()
	defer c.mu.Unlock()
	return c.n[method]
}

func (c *CDB) call(method string) error {
	if atomic.LoadInt32(&c.passive) == 1 {
		return nil
	}
	c.mu.Lock()
	c.n[method]++
	h := c.hook
	c.mu.Unlock()
	if h != nil {
		return h(method)
	}
	return nil
}

func (c *CDB) FetchScriptHashRelatedTx(hashes [][]byte, start, stop uint64) (map[uint64][]*wire.TxLoc, error) {
	if err := c.call("FetchScriptHashRelatedTx"); err != nil {
		return nil, err
	}
	return c.Db.FetchScriptHashRelatedTx(hashes, start, stop)
}

func (c *CDB) FetchBlockLocByHeight(height uint64) (*database.BlockLoc, error) {
	if err := c.call("FetchBlockLocByHeight"); err != nil {
		return nil, err
	}
	return c.Db.FetchBlockLocByHeight(height)
}

func (c *CDB) FetchBlockShaByHeight(height uint64) (*wire.Hash, error) {
	if err := c.call("FetchBlockShaByHeight"); err != nil {
		return nil, err
	}
	return c.Db.FetchBlockShaByHeight(height)
}

func (c *CDB) FetchTxByLoc(height uint64, off, l int) (*wire.MsgTx, error) {
	if err := c.call("FetchTxByLoc"); err != nil {
		return nil, err
	}
	return c.Db.FetchTxByLoc(height, off, l)
}

func (c *CDB) FetchTxBySha(sha *wire.Hash) ([]*database.TxReply, error) {
	if err := c.call("FetchTxBySha"); err != nil {
		return nil, err
	}
	return c.Db.FetchTxBySha(sha)
}

func (c *CDB) CheckScriptHashUsed(h []byte) (bool, error) {
	if err := c.call("CheckScriptHashUsed"); err != nil {
		return false, err
	}
	return c.Db.CheckScriptHashUsed(h)
}

func (c *CDB) FetchBlockBySha(sha *wire.Hash) (*massutil.Block, error) {
	if err := c.call("FetchBlockBySha"); err != nil {
		return nil, err
	}
	return c.Db.FetchBlockBySha(sha)
}

func (c *CDB) FetchBlockHeaderBySha(sha *wire.Hash) (*wire.BlockHeader, error) {
	if err := c.call("FetchBlockHeaderBySha"); err != nil {
		return nil, err
	}
	return c.Db.FetchBlockHeaderBySha(sha)
}

func (c *CDB) FetchTxByFileLoc(blkLoc *database.BlockLoc, txLoc *wire.TxLoc) (*wire.MsgTx, error) {
	if err := c.call("FetchTxByFileLoc"); err != nil {
		return nil, err
	}
	return c.Db.FetchTxByFileLoc(blkLoc, txLoc)
}

// CallerRole classifies the calling goroutine by the wallet frames on its stack (block, import,
// remove, recvtx, start, worker, open; "api" for everything else, including the harness itself).
func CallerRole() string { return roleOfCaller() }
