package sim

import (
	"bytes"
	"encoding/binary"
	"fmt"
	"math"
	"sort"

	"github.com/massnetorg/mass-core/blockchain"
	"github.com/massnetorg/mass-core/consensus"
	"github.com/massnetorg/mass-core/massutil"
	"github.com/massnetorg/mass-core/txscript"
	"github.com/massnetorg/mass-core/wire"
	"massnet.org/mass-wallet/config"
)

// Reference ledger: recomputed from scratch from a list of best-chain blocks. No database, no
// incremental state. Script reading uses the consensus library directly (txscript), never the
// wallet's utils.ParsePkScript.

const (
	ClassStd = iota
	ClassStaking
	ClassBinding
)

type Out struct {
	OP       wire.OutPoint
	Value    int64
	PkScript []byte
	Height   uint64
	Coinbase bool
	Class    int
	Hash     [32]byte // std / holder script hash
	HasHash  bool
	Frozen   uint64 // staking
	Target   []byte // binding target bytes (20 or 22)
	Spent    bool
	SpentBy  wire.Hash
	SpentAt  uint64
}

// Maturity: number of confirmations (tip-height+1) consensus requires before the next block may
// spend the output (transcribed from checkTxInMaturity / calcSequenceLock / SequenceLockActive).
func (o *Out) Maturity() uint64 {
	m := uint64(0)
	switch o.Class {
	case ClassStaking:
		m = o.Frozen + 1
	case ClassBinding:
		// consensus (scriptval.go): a binding output created at or after the MASSIP0002 warm-up
		// height carries the relative lock; 22-byte targets exist only from that height on
		if o.Height >= consensus.MASSIP0002WarmUpHeight || len(o.Target) == 22 {
			m = consensus.MASSIP0002BindingLockedPeriod
		}
	}
	if o.Coinbase && consensus.CoinbaseMaturity > m {
		m = consensus.CoinbaseMaturity
	}
	return m
}

func ReadOut(op wire.OutPoint, txo *wire.TxOut, height uint64, coinbase bool) *Out {
	o := &Out{OP: op, Value: txo.Value, PkScript: txo.PkScript, Height: height, Coinbase: coinbase}
	class, pops := txscript.GetScriptInfo(txo.PkScript)
	switch class {
	case txscript.WitnessV0ScriptHashTy:
		_, h, err := txscript.GetParsedOpcode(pops, class)
		if err == nil {
			o.Hash, o.HasHash = h, true
		}
	case txscript.StakingScriptHashTy:
		fr, h, err := txscript.GetParsedOpcode(pops, class)
		if err == nil {
			o.Hash, o.HasHash, o.Class, o.Frozen = h, true, ClassStaking, fr
		}
	case txscript.BindingScriptHashTy:
		holder, target, err := txscript.GetParsedBindingOpcode(pops)
		if err == nil && len(holder) == 32 {
			copy(o.Hash[:], holder)
			o.HasHash, o.Class = true, ClassBinding
			o.Target = append([]byte{}, target...)
		}
	}
	return o
}

// View is the set of all outputs created on a chain with their spent state.
type View struct {
	Tip  uint64
	Outs map[wire.OutPoint]*Out
	Txs  map[wire.Hash]uint64 // tx → height
}

func NewView() *View { return &View{Outs: map[wire.OutPoint]*Out{}, Txs: map[wire.Hash]uint64{}} }

// Apply adds a block's transactions.
func (v *View) Apply(b *Block) error {
	for _, tx := range b.Msg.Transactions {
		if err := v.ApplyTx(tx, b.Height); err != nil {
			return fmt.Errorf("block %d: %v", b.Height, err)
		}
	}
	v.Tip = b.Height
	return nil
}

func (v *View) ApplyTx(tx *wire.MsgTx, height uint64) error {
	h := tx.TxHash()
	cb := blockchain.IsCoinBaseTx(tx)
	if !cb {
		for _, in := range tx.TxIn {
			o := v.Outs[in.PreviousOutPoint]
			if o == nil {
				return fmt.Errorf("tx %v spends unknown output %v", h, in.PreviousOutPoint)
			}
			if o.Spent {
				return fmt.Errorf("tx %v double-spends %v", h, in.PreviousOutPoint)
			}
			o.Spent, o.SpentBy, o.SpentAt = true, h, height
		}
	}
	for i, txo := range tx.TxOut {
		op := wire.OutPoint{Hash: h, Index: uint32(i)}
		v.Outs[op] = ReadOut(op, txo, height, cb)
	}
	v.Txs[h] = height
	return nil
}

// ViewOf replays the chain ending in tip (excluding genesis outputs, which nobody here spends).
func ViewOf(tip *Block) (*View, error) {
	var chain []*Block
	for b := tip; b != nil && b.Height > 0; b = b.Parent {
		chain = append(chain, b)
	}
	v := NewView()
	for i := len(chain) - 1; i >= 0; i-- {
		if err := v.Apply(chain[i]); err != nil {
			return nil, err
		}
	}
	v.Tip = tip.Height
	return v, nil
}

func ViewOfChain(chain []*Block) (*View, error) {
	v := NewView()
	for _, b := range chain {
		if b.Height == 0 {
			continue
		}
		if err := v.Apply(b); err != nil {
			return nil, err
		}
	}
	if len(chain) > 0 {
		v.Tip = chain[len(chain)-1].Height
	}
	return v, nil
}

// Confs of an output at the view's tip.
func (v *View) Confs(o *Out) uint64 { return v.Tip - o.Height + 1 }

// Mature: may the next block spend it?
func (v *View) Mature(o *Out) bool { return v.Confs(o) >= o.Maturity() }

// ---------------------------------------------------------------------------------------
// Expected observation of a wallet

type ExpUtxo struct {
	Address       string
	TxID          string
	Vout          uint32
	Amount        int64
	Height        uint64
	Maturity      uint32
	Confirmations uint32
}

type ExpWallet struct {
	Total, Spendable, WStaking, WBinding int64
	Utxos                                []ExpUtxo
	AddrBal                              map[string][4]int64
	Staking                              []string // mined deposits: "txid:vout h= amt= addr= frozen= spent="
	Binding                              []string
	UsedStd                              map[string]bool // std address → has a payment on the best chain
	UsedStaking                          map[string]bool // staking address → has a staking payment
	FirstUse                             map[[32]byte]uint64
}

func StdAddr(h [32]byte) string {
	a, err := massutil.NewAddressWitnessScriptHash(h[:], config.ChainParams)
	if err != nil {
		return ""
	}
	return a.EncodeAddress()
}

func StakingAddr(h [32]byte) string {
	a, err := massutil.NewAddressStakingScriptHash(h[:], config.ChainParams)
	if err != nil {
		return ""
	}
	return a.EncodeAddress()
}

func targetAddr(t []byte) string {
	if len(t) == 20 {
		a, err := massutil.NewAddressPubKeyHash(t, config.ChainParams)
		if err == nil {
			return a.EncodeAddress()
		}
	} else {
		a, err := massutil.NewAddressBindingTarget(t, config.ChainParams)
		if err == nil {
			return a.EncodeAddress()
		}
	}
	return ""
}

// Expect computes what the wallet owning the script hashes `owned` must report on view v.
func (v *View) Expect(owned map[[32]byte]bool) *ExpWallet {
	e := &ExpWallet{AddrBal: map[string][4]int64{}, UsedStd: map[string]bool{}, UsedStaking: map[string]bool{}, FirstUse: map[[32]byte]uint64{}}
	for h := range owned {
		e.AddrBal[StdAddr(h)] = [4]int64{}
	}
	ops := make([]wire.OutPoint, 0, len(v.Outs))
	for op := range v.Outs {
		ops = append(ops, op)
	}
	sort.Slice(ops, func(i, j int) bool {
		a, b := ops[i].Hash.String(), ops[j].Hash.String()
		if a != b {
			return a < b
		}
		return ops[i].Index < ops[j].Index
	})
	for _, op := range ops {
		o := v.Outs[op]
		if !o.HasHash || !owned[o.Hash] {
			continue
		}
		addr := StdAddr(o.Hash)
		if o.Class == ClassStaking {
			e.UsedStaking[StakingAddr(o.Hash)] = true
		} else {
			e.UsedStd[addr] = true
		}
		if fu, ok := e.FirstUse[o.Hash]; !ok || o.Height < fu {
			e.FirstUse[o.Hash] = o.Height
		}
		switch o.Class {
		case ClassStaking:
			e.Staking = append(e.Staking, fmt.Sprintf("%s:%d h=%d amt=%d addr=%s frozen=%d spent=%v", op.Hash.String(), op.Index, o.Height, o.Value, StakingAddr(o.Hash), uint32(o.Frozen), o.Spent))
		case ClassBinding:
			e.Binding = append(e.Binding, fmt.Sprintf("%s:%d h=%d amt=%d holder=%s target=%s spent=%v", op.Hash.String(), op.Index, o.Height, o.Value, addr, targetAddr(o.Target), o.Spent))
		}
		if o.Spent {
			continue
		}
		e.Total += o.Value
		if o.Value == 0 {
			continue // the wallet lists no zero-value coins
		}
		confs := v.Confs(o)
		mat := o.Maturity()
		m32 := uint32(mat)
		if mat > math.MaxUint32 {
			m32 = math.MaxUint32
		}
		e.Utxos = append(e.Utxos, ExpUtxo{Address: addr, TxID: op.Hash.String(), Vout: op.Index, Amount: o.Value, Height: o.Height, Maturity: m32, Confirmations: uint32(confs)})
		ab := e.AddrBal[addr]
		ab[0] += o.Value
		if confs >= mat {
			switch o.Class {
			case ClassStd:
				e.Spendable += o.Value
				ab[1] += o.Value
			case ClassStaking:
				e.WStaking += o.Value
				ab[2] += o.Value
			case ClassBinding:
				e.WBinding += o.Value
				ab[3] += o.Value
			}
		}
		e.AddrBal[addr] = ab
	}
	sort.Strings(e.Staking)
	sort.Strings(e.Binding)
	return e
}

// CompareOpts selects which parts of an observation are compared.
type CompareOpts struct {
	Histories bool // staking/binding histories (mined entries)
	AddrBal   bool
}

// Compare returns the differences between what wallet id reports (obs) and the ledger expectation.
func (e *ExpWallet) Compare(wo *WalletObs, opts CompareOpts) []string {
	var d []string
	if wo.UseErr != "" {
		return []string{"wallet API error: " + wo.UseErr}
	}
	if wo.TotalBalance != e.Total {
		d = append(d, fmt.Sprintf("UseWallet.TotalBalance=%d ledger=%d", wo.TotalBalance, e.Total))
	}
	if wo.BalNoDetail != e.Total {
		d = append(d, fmt.Sprintf("WalletBalance(no detail).Total=%d ledger=%d", wo.BalNoDetail, e.Total))
	}
	want := [4]int64{e.Total, e.Spendable, e.WStaking, e.WBinding}
	if wo.Bal != want {
		d = append(d, fmt.Sprintf("WalletBalance[total,spendable,wStaking,wBinding]=%v ledger=%v", wo.Bal, want))
	}
	// utxo multiset
	got := map[string]UtxoObs{}
	for _, u := range wo.Utxos {
		k := fmt.Sprintf("%s:%d", u.TxID, u.Vout)
		if _, dup := got[k]; dup {
			d = append(d, "GetUtxo lists "+k+" twice")
		}
		got[k] = u
	}
	for _, x := range e.Utxos {
		k := fmt.Sprintf("%s:%d", x.TxID, x.Vout)
		u, ok := got[k]
		if !ok {
			d = append(d, fmt.Sprintf("GetUtxo misses %s (amount %d, height %d, address %s)", k, x.Amount, x.Height, x.Address))
			continue
		}
		delete(got, k)
		if u.Address != x.Address || u.Amount != x.Amount || u.Height != x.Height || u.Maturity != x.Maturity || u.Confirmations != x.Confirmations {
			d = append(d, fmt.Sprintf("GetUtxo %s: got {addr %s amt %d h %d mat %d confs %d} ledger {addr %s amt %d h %d mat %d confs %d}", k,
				u.Address, u.Amount, u.Height, u.Maturity, u.Confirmations, x.Address, x.Amount, x.Height, x.Maturity, x.Confirmations))
		}
	}
	for k, u := range got {
		d = append(d, fmt.Sprintf("GetUtxo lists %s (amount %d, height %d) which the best chain does not pay to the wallet or has spent", k, u.Amount, u.Height))
	}
	if opts.AddrBal {
		for a, x := range e.AddrBal {
			if g, ok := wo.AddrBal[a]; !ok {
				// addresses without coins may be omitted only if the wallet does not know the address
				if x != [4]int64{} {
					d = append(d, fmt.Sprintf("AddressBalance misses %s ledger=%v", a, x))
				}
			} else if g != x {
				d = append(d, fmt.Sprintf("AddressBalance(%s)=%v ledger=%v", a, g, x))
			}
		}
	}
	if opts.Histories {
		d = append(d, cmpHist("GetStakingHistory", minedOnly(wo.Staking), e.Staking)...)
		d = append(d, cmpHist("GetBindingHistory", minedOnly(wo.Binding), e.Binding)...)
	}
	sort.Strings(d)
	if len(d) > 12 {
		d = append(d[:12], fmt.Sprintf("… and %d more differences", len(d)-12))
	}
	return d
}

// minedOnly drops pending (h=0) history entries and the spent-by-unmined flag (C09's subject).
func minedOnly(h []string) []string {
	var out []string
	for _, s := range h {
		if containsStr(s, " h=0 ") {
			continue
		}
		if i := indexStr(s, " sbu="); i >= 0 {
			s = s[:i]
		}
		out = append(out, s)
	}
	sort.Strings(out)
	return out
}

func containsStr(s, sub string) bool { return indexStr(s, sub) >= 0 }
func indexStr(s, sub string) int {
	for i := 0; i+len(sub) <= len(s); i++ {
		if s[i:i+len(sub)] == sub {
			return i
		}
	}
	return -1
}

func cmpHist(name string, got, want []string) []string {
	var d []string
	g := map[string]int{}
	for _, s := range got {
		g[s]++
	}
	for _, s := range want {
		if g[s] == 0 {
			d = append(d, fmt.Sprintf("%s misses or misreports deposit %s", name, s))
		} else {
			g[s]--
		}
	}
	for s, n := range g {
		if n > 0 {
			d = append(d, fmt.Sprintf("%s reports %s which is not a best-chain deposit in that state (x%d)", name, s, n))
		}
	}
	return d
}

// ---------------------------------------------------------------------------------------
// Transaction builders

var cbCounter uint64

// Coinbase builds a coinbase transaction with the given outputs; the payload makes it unique.
func Coinbase(height uint64, salt uint64, outs []*wire.TxOut) *wire.MsgTx {
	tx := wire.NewMsgTx()
	tx.AddTxIn(&wire.TxIn{PreviousOutPoint: *wire.NewOutPoint(&wire.Hash{}, wire.MaxPrevOutIndex), Sequence: wire.MaxTxInSequenceNum})
	for _, o := range outs {
		tx.AddTxOut(o)
	}
	// consensus layout of a coinbase payload: height (8 bytes), number of staking-reward outputs
	// (4 bytes, none here); the salt follows as extra data
	p := make([]byte, 20)
	binary.LittleEndian.PutUint64(p, height)
	binary.LittleEndian.PutUint64(p[12:], salt)
	tx.SetPayload(p)
	return tx
}

// Spend builds a transaction spending the given outpoints (no witnesses: the wallet's ingest path
// and the chain database do not verify signatures).
func Spend(ins []wire.OutPoint, seqs []uint64, outs []*wire.TxOut, salt uint64) *wire.MsgTx {
	tx := wire.NewMsgTx()
	for i, op := range ins {
		seq := uint64(wire.MaxTxInSequenceNum)
		if seqs != nil {
			seq = seqs[i]
		}
		o := op
		tx.AddTxIn(&wire.TxIn{PreviousOutPoint: o, Sequence: seq})
	}
	for _, o := range outs {
		tx.AddTxOut(o)
	}
	if salt != 0 {
		p := make([]byte, 8)
		binary.LittleEndian.PutUint64(p, salt)
		tx.SetPayload(p)
	}
	return tx
}

func P2WSH(h [32]byte) []byte {
	s, _ := txscript.PayToWitnessScriptHashScript(h[:])
	return s
}

// StakingScript builds the staking template by hand (the consensus builder refuses frozen periods
// below consensus.MinFrozenPeriod, which scenarios lower anyway).
func StakingScript(h [32]byte, frozen uint64) []byte {
	s := append([]byte{0x00, 0x20}, h[:]...)
	s = append(s, 0x08)
	var b [8]byte
	binary.LittleEndian.PutUint64(b[:], frozen)
	return append(s, b[:]...)
}

func BindingScript(holder [32]byte, target []byte) []byte {
	s, _ := txscript.PayToBindingScriptHashScript(holder[:], target)
	return s
}

// SortedOuts returns the outputs of the view ordered by outpoint: every choice "the first n outputs
// such that ..." made by a generator must not depend on Go's map iteration order, or a case would not
// replay.
func (v *View) SortedOuts() []*Out {
	l := make([]*Out, 0, len(v.Outs))
	for _, o := range v.Outs {
		l = append(l, o)
	}
	sort.Slice(l, func(a, b int) bool {
		if c := bytes.Compare(l[a].OP.Hash[:], l[b].OP.Hash[:]); c != 0 {
			return c < 0
		}
		return l[a].OP.Index < l[b].OP.Index
	})
	return l
}
