package sim

import (
	"fmt"
	"sort"
	"time"

	"github.com/massnetorg/mass-core/blockchain"
	"github.com/massnetorg/mass-core/consensus"
	"github.com/massnetorg/mass-core/massutil"
	"github.com/massnetorg/mass-core/wire"
	"massnet.org/mass-wallet/config"

	"verifharness/core"
)

// WalletKeys is what the harness knows about one wallet under test.
type WalletKeys struct {
	ID       string
	Pass     string
	Mnemonic string
	Std      []string // issued standard addresses, in issue order
	Hashes   [][32]byte
	Owned    map[[32]byte]bool
	Staking  map[[32]byte]bool // script hashes for which a staking address was issued too
}

func HashOfAddress(addr string) ([32]byte, error) {
	var h [32]byte
	a, err := massutil.DecodeAddress(addr, config.ChainParams)
	if err != nil {
		return h, err
	}
	copy(h[:], a.ScriptAddress())
	return h, nil
}

type GenOpts struct {
	Staking    bool
	BindingOld bool
	BindingNew bool
	Frozen     []uint64 // frozen periods to draw from
	MaxTxs     int
	Hostile    bool // null-data / odd outputs to strangers
}

// World ties node, wallet instance, keys and the PRNG together and logs every step.
type World struct {
	T         *core.T
	R         *core.Rand
	N         *Node
	W         *Wallet
	Keys      []*WalletKeys
	Strangers [][32]byte
	Opt       GenOpts
	salt      uint64
	Ops       []string
	// dispositions applied to rolled-back wallet transactions (for the fingerprint)
	Disp []string
	// Avoid: outpoints random transactions must not spend (inputs of pending transactions)
	Avoid map[wire.OutPoint]bool
	// NoDrop: a rolled-back wallet transaction is always re-mined or conflicted on the new branch,
	// never left pending for ever (used where runs that saw different abandoned blocks are compared)
	NoDrop bool
	// Keep: outpoints random transactions never spend (coins whose pending-spend flag a check wants
	// to see at the end of the history)
	Keep map[wire.OutPoint]bool
	// CoinbaseToWallet > 0: every generated block's coinbase also pays this amount to a wallet address
	// (a large immature coin at the tip: what a query with a stale height would wrongly take for mature)
	CoinbaseToWallet int64
	// curHeight: height of the block being built (script choice depends on the fork height)
	curHeight uint64
}

// PayScriptAt draws an output script for a transaction mined at (or pending for) the height.
func (w *World) PayScriptAt(h [32]byte, height uint64) []byte {
	w.curHeight = height
	return w.payScript(h, true)
}

func (w *World) WalletHashPub() ([32]byte, bool) { return w.walletHash() }
func (w *World) StrangerPub() [32]byte           { return w.stranger() }
func (w *World) BlockDesc(b *Block) string       { return w.blockDesc(b) }

// BuildBlockAvoiding / ForkAvoiding: as BuildBlock / Fork, but random transactions never spend
// an outpoint of avoid.
func (w *World) BuildBlockAvoiding(parent *Block, carry []*wire.MsgTx, nRandom int, avoid map[wire.OutPoint]bool) (*Block, error) {
	w.Avoid = avoid
	defer func() { w.Avoid = nil }()
	return w.BuildBlock(parent, carry, nRandom)
}

func (w *World) ForkAvoiding(depth, length, nRandom int, avoid map[wire.OutPoint]bool) (*Block, bool, error) {
	w.Avoid = avoid
	defer func() { w.Avoid = nil }()
	return w.Fork(depth, length, nRandom)
}

func (w *World) Logf(f string, a ...interface{}) {
	if len(w.Ops) < 3000 {
		w.Ops = append(w.Ops, fmt.Sprintf(f, a...))
	}
}

func (w *World) Witness() map[string]interface{} {
	ops := w.Ops
	if len(ops) > 150 {
		ops = append([]string{fmt.Sprintf("…(%d earlier ops)", len(ops)-150)}, ops[len(ops)-150:]...)
	}
	return map[string]interface{}{"ops": ops}
}

func (w *World) nextSalt() uint64 { w.salt++; return w.salt }

// AllOwned: union of the script hashes of all wallets.
func (w *World) AllOwned() map[[32]byte]int {
	m := map[[32]byte]int{}
	for i, k := range w.Keys {
		for h := range k.Owned {
			m[h] = i
		}
	}
	return m
}

// NewWalletKeys creates a wallet through the manager API and issues n addresses.
func (w *World) NewWalletKeys(pass string, bits int, nAddr int) (*WalletKeys, error) {
	id, mn, _, err := w.W.W.CreateWallet(pass, "w", bits)
	if err != nil {
		return nil, err
	}
	k := &WalletKeys{ID: id, Pass: pass, Mnemonic: mn, Owned: map[[32]byte]bool{}, Staking: map[[32]byte]bool{}}
	w.Keys = append(w.Keys, k)
	w.Logf("CreateWallet -> %s", id)
	for i := 0; i < nAddr; i++ {
		if _, err := w.IssueAddress(k, 0); err != nil {
			return nil, err
		}
	}
	return k, nil
}

// IssueAddress asks the wallet for a new address of the class (0 std, 1 staking).
func (w *World) IssueAddress(k *WalletKeys, class uint16) (string, error) {
	if _, err := w.W.W.UseWallet(k.ID); err != nil {
		return "", err
	}
	addr, err := w.W.W.NewAddress(class)
	if err != nil {
		return "", err
	}
	h, err := HashOfAddress(addr)
	if err != nil {
		return "", err
	}
	if class == 0 {
		k.Std = append(k.Std, addr)
	} else {
		k.Staking[h] = true
	}
	if !k.Owned[h] {
		k.Hashes = append(k.Hashes, h)
	}
	k.Owned[h] = true
	w.Logf("NewAddress(%s,class %d) -> %s", k.ID[:8], class, addr)
	return addr, nil
}

func (w *World) stranger() [32]byte {
	if len(w.Strangers) == 0 || (len(w.Strangers) < 6 && w.R.Chance(30)) {
		var h [32]byte
		copy(h[:], w.R.Bytes(32))
		w.Strangers = append(w.Strangers, h)
		return h
	}
	return w.Strangers[w.R.Intn(len(w.Strangers))]
}

func (w *World) walletHash() ([32]byte, bool) {
	if len(w.Keys) == 0 {
		return [32]byte{}, false
	}
	k := w.Keys[w.R.Intn(len(w.Keys))]
	if len(k.Hashes) == 0 {
		return [32]byte{}, false
	}
	return k.Hashes[w.R.Intn(len(k.Hashes))], true
}

// payScript draws an output script paying hash h: standard mostly, staking/binding when enabled.
func (w *World) payScript(h [32]byte, toWallet bool) []byte {
	o := w.Opt
	kinds := []int{0}
	if o.Staking {
		kinds = append(kinds, 1)
	}
	// consensus: 20-byte targets only before the MASSIP0002 warm-up height, 22-byte ones from it on
	afterWarmUp := w.curHeight >= consensus.MASSIP0002WarmUpHeight
	if o.BindingOld && !afterWarmUp {
		kinds = append(kinds, 2)
	}
	if o.BindingNew && afterWarmUp {
		kinds = append(kinds, 3)
	}
	k := 0
	if len(kinds) > 1 && w.R.Chance(35) {
		k = kinds[1+w.R.Intn(len(kinds)-1)]
	}
	switch k {
	case 1:
		fr := uint64(5)
		if len(o.Frozen) > 0 {
			fr = o.Frozen[w.R.Intn(len(o.Frozen))]
		}
		return StakingScript(h, fr)
	case 2:
		return BindingScript(h, w.R.Bytes(20))
	case 3:
		t := w.R.Bytes(22)
		t[20] = byte(w.R.Intn(2))
		t[21] = byte(w.R.Range(20, 40))
		return BindingScript(h, t)
	}
	return P2WSH(h)
}

func (w *World) amount() int64 {
	switch w.R.Intn(5) {
	case 0:
		return int64(w.R.Range(1, 999))
	case 1:
		return int64(w.R.Range(1, 50)) * 100000000
	default:
		return int64(w.R.Range(1000, 90000000))
	}
}

// spendable lists mature unspent outputs of view v owned by wallets (or strangers).
func (w *World) spendable(v *View, wallets bool) []*Out {
	owned := w.AllOwned()
	var outs []*Out
	for _, o := range v.SortedOuts() {
		if o.Spent || !o.HasHash || o.Value <= 0 || w.Avoid[o.OP] || w.Keep[o.OP] {
			continue
		}
		_, isW := owned[o.Hash]
		if isW != wallets {
			continue
		}
		if !v.Mature(o) {
			continue
		}
		outs = append(outs, o)
	}
	sort.Slice(outs, func(i, j int) bool {
		a, b := outs[i].OP, outs[j].OP
		if a.Hash != b.Hash {
			return a.Hash.String() < b.Hash.String()
		}
		return a.Index < b.Index
	})
	return outs
}

// RandomTx builds one transaction valid on v (applies it to v). kind: 0 stranger→wallet,
// 1 wallet→(stranger|wallet), 2 spend of an output created earlier in this block.
func (w *World) RandomTx(v *View, height uint64, inBlock []*wire.MsgTx) *wire.MsgTx {
	kind := w.R.Pick(4, 4, 2)
	var ins []*Out
	switch kind {
	case 0:
		s := w.spendable(v, false)
		if len(s) == 0 {
			return nil
		}
		ins = []*Out{s[w.R.Intn(len(s))]}
	case 1:
		s := w.spendable(v, true)
		if len(s) == 0 {
			return nil
		}
		n := w.R.Range(1, 3)
		for i := 0; i < n && len(s) > 0; i++ {
			j := w.R.Intn(len(s))
			ins = append(ins, s[j])
			s = append(s[:j], s[j+1:]...)
		}
		// jointly funded: a stranger's coin among the inputs, at any position (the wallet's input is
		// then not input 0, and the relevant inputs are not a prefix of the input list)
		if w.R.Chance(35) {
			if f := w.spendable(v, false); len(f) > 0 {
				x := f[w.R.Intn(len(f))]
				at := w.R.Intn(len(ins) + 1)
				ins = append(ins[:at], append([]*Out{x}, ins[at:]...)...)
			}
		}
	case 2:
		if len(inBlock) == 0 {
			return nil
		}
		ptx := inBlock[w.R.Intn(len(inBlock))]
		ph := ptx.TxHash()
		for i := range ptx.TxOut {
			o := v.Outs[wire.OutPoint{Hash: ph, Index: uint32(i)}]
			if o != nil && !o.Spent && o.Value > 0 && !o.Coinbase && o.Maturity() == 0 && !w.Avoid[o.OP] {
				ins = append(ins, o)
				break
			}
		}
		if len(ins) == 0 {
			return nil
		}
	}
	total := int64(0)
	var ops []wire.OutPoint
	for _, o := range ins {
		total += o.Value
		ops = append(ops, o.OP)
	}
	if total < 10 {
		return nil
	}
	nOut := w.R.Range(1, 3)
	var outs []*wire.TxOut
	left := total - total/100 // 1% fee
	for i := 0; i < nOut; i++ {
		val := left
		if i < nOut-1 {
			val = left * int64(w.R.Range(10, 70)) / 100
		}
		if val <= 0 {
			break
		}
		left -= val
		toWallet := w.R.Chance(55)
		if kind == 0 && i == 0 {
			toWallet = true
		}
		var h [32]byte
		ok := false
		if toWallet {
			h, ok = w.walletHash()
		}
		if !ok {
			h = w.stranger()
			toWallet = false
		}
		outs = append(outs, wire.NewTxOut(val, w.payScript(h, toWallet)))
	}
	if len(outs) == 0 {
		return nil
	}
	// now and then an output of a script class the wallet does not support (a data carrier) sits
	// somewhere among the outputs - before or after the ones that pay a wallet
	if w.R.Chance(6) {
		carrier := wire.NewTxOut(0, append([]byte{0x6a, 0x04}, w.R.Bytes(4)...))
		at := w.R.Intn(len(outs) + 1)
		outs = append(outs[:at], append([]*wire.TxOut{carrier}, outs[at:]...)...)
		if w.T != nil {
			w.T.Count("transactions_with_an_unsupported_output", 1)
		}
	}
	tx := Spend(ops, nil, outs, w.nextSalt())
	if hasBindingInAndOut(v, tx) {
		return nil // consensus forbids binding input + binding output; the wallet rejects it too
	}
	if err := v.ApplyTx(tx, height); err != nil {
		return nil
	}
	return tx
}

func bindingStyleFits(tx *wire.MsgTx, height uint64) bool {
	after := height >= consensus.MASSIP0002WarmUpHeight
	for _, o := range tx.TxOut {
		ro := ReadOut(wire.OutPoint{}, o, 0, false)
		if ro.Class == ClassBinding && (len(ro.Target) == 22) != after {
			return false
		}
	}
	return true
}

func hasBindingInAndOut(v *View, tx *wire.MsgTx) bool {
	in, out := false, false
	for _, i := range tx.TxIn {
		if o := v.Outs[i.PreviousOutPoint]; o != nil && o.Class == ClassBinding {
			in = true
		}
	}
	for _, o := range tx.TxOut {
		if ReadOut(wire.OutPoint{}, o, 0, false).Class == ClassBinding {
			out = true
		}
	}
	return in && out
}

// BuildBlock builds a block on parent: coinbase, the carried transactions that are still valid,
// then random ones.
func (w *World) BuildBlock(parent *Block, carry []*wire.MsgTx, nRandom int) (*Block, error) {
	v, err := ViewOf(parent)
	if err != nil {
		return nil, err
	}
	height := parent.Height + 1
	w.curHeight = height
	var cbOuts []*wire.TxOut
	if w.CoinbaseToWallet > 0 {
		if h, ok := w.walletHash(); ok {
			cbOuts = append(cbOuts, wire.NewTxOut(w.CoinbaseToWallet, P2WSH(h)))
		}
	}
	nOut := w.R.Range(1, 3)
	for i := 0; i < nOut; i++ {
		if h, ok := w.walletHash(); ok && w.R.Chance(50) {
			cbOuts = append(cbOuts, wire.NewTxOut(w.amount(), P2WSH(h)))
		} else {
			cbOuts = append(cbOuts, wire.NewTxOut(w.amount(), P2WSH(w.stranger())))
		}
	}
	cb := Coinbase(height, w.nextSalt(), cbOuts)
	txs := []*wire.MsgTx{cb}
	if err := v.ApplyTx(cb, height); err != nil {
		return nil, err
	}
	for _, c := range carry {
		if !bindingStyleFits(c, height) {
			continue // consensus: 22-byte targets only from the warm-up height on, 20-byte ones only before
		}
		if err := v.ApplyTx(c, height); err == nil {
			txs = append(txs, c)
		} else {
			w.Logf("(carried transaction %s does not apply on the new branch: %v)", c.TxHash().String()[:10], err)
		}
	}
	for i := 0; i < nRandom; i++ {
		if tx := w.RandomTx(v, height, txs[1:]); tx != nil {
			txs = append(txs, tx)
		}
	}
	return w.N.NewBlock(parent, txs), nil
}

// describe a block for the op log.
func (w *World) blockDesc(b *Block) string {
	owned := w.AllOwned()
	rel := 0
	for _, tx := range b.Msg.Transactions {
		for _, o := range tx.TxOut {
			ro := ReadOut(wire.OutPoint{}, o, 0, false)
			if _, ok := owned[ro.Hash]; ok && ro.HasHash {
				rel++
			}
		}
	}
	s := fmt.Sprintf("h=%d %s txs=%d walletOuts=%d", b.Height, b.Hash.String()[:10], len(b.Msg.Transactions), rel)
	if w.T != nil && w.T.Replay {
		for _, tx := range b.Msg.Transactions {
			s += "\n        tx " + tx.TxHash().String()[:10] + " in["
			for _, in := range tx.TxIn {
				s += fmt.Sprintf(" %s:%d", in.PreviousOutPoint.Hash.String()[:10], in.PreviousOutPoint.Index)
			}
			s += " ] out["
			for _, o := range tx.TxOut {
				ro := ReadOut(wire.OutPoint{}, o, 0, false)
				who := "stranger"
				if i, ok := owned[ro.Hash]; ok && ro.HasHash {
					who = fmt.Sprintf("W%d", i)
				}
				s += fmt.Sprintf(" %d->%s(class %d)", o.Value, who, ro.Class)
			}
			s += " ]"
		}
	}
	return s
}

// Extend builds and connects one block on the tip. Returns the block (not announced).
func (w *World) Extend(nRandom int) (*Block, error) {
	b, err := w.BuildBlock(w.N.Tip(), nil, nRandom)
	if err != nil {
		return nil, err
	}
	if err := w.N.Extend(b); err != nil {
		return nil, err
	}
	w.Logf("extend %s", w.blockDesc(b))
	return b, nil
}

// relevantTxs returns the non-coinbase transactions of the blocks that touch a wallet.
func (w *World) relevantTxs(blocks []*Block, v *View) []*wire.MsgTx {
	owned := w.AllOwned()
	var out []*wire.MsgTx
	for _, b := range blocks {
		for _, tx := range b.Msg.Transactions {
			if blockchain.IsCoinBaseTx(tx) {
				continue
			}
			rel := false
			for _, o := range tx.TxOut {
				ro := ReadOut(wire.OutPoint{}, o, 0, false)
				if _, ok := owned[ro.Hash]; ok && ro.HasHash {
					rel = true
				}
			}
			for _, in := range tx.TxIn {
				if o := v.Outs[in.PreviousOutPoint]; o != nil && o.HasHash {
					if _, ok := owned[o.Hash]; ok {
						rel = true
					}
				}
			}
			if rel {
				out = append(out, tx)
			}
		}
	}
	return out
}

// Fork builds a competing branch from the ancestor `depth` blocks below the tip with `length`
// blocks and makes it the best chain. Rolled-back wallet transactions are re-mined, dropped or
// double-spent by draw. Returns the new tip and whether a wallet-relevant block was disconnected.
func (w *World) Fork(depth, length, nRandom int) (*Block, bool, error) {
	best := w.N.BestChain()
	if depth >= len(best) {
		depth = len(best) - 1
	}
	if depth < 1 || length < 1 {
		return nil, false, nil
	}
	anc := best[len(best)-1-depth]
	oldBlocks := best[len(best)-depth:]
	vOld, err := ViewOfChain(best)
	if err != nil {
		return nil, false, err
	}
	rolled := w.relevantTxs(oldBlocks, vOld)
	relevantDisconnected := len(rolled) > 0
	if !relevantDisconnected {
		owned := w.AllOwned()
		for _, b := range oldBlocks {
			for _, o := range b.Msg.Transactions[0].TxOut {
				ro := ReadOut(wire.OutPoint{}, o, 0, true)
				if _, ok := owned[ro.Hash]; ok && ro.HasHash {
					relevantDisconnected = true
				}
			}
		}
	}
	// dispositions
	var carry []*wire.MsgTx
	vAnc, err := ViewOf(anc)
	if err != nil {
		return nil, false, err
	}
	for _, tx := range rolled {
		disp := w.R.Pick(4, 3, 3)
		if w.NoDrop && disp == 1 {
			disp = 0
		}
		switch disp {
		case 0:
			carry = append(carry, tx)
			w.Disp = append(w.Disp, "remine")
		case 1:
			w.Disp = append(w.Disp, "drop")
		case 2:
			// conflicting transaction: spends the first input that exists below the fork point
			var op *wire.OutPoint
			for _, in := range tx.TxIn {
				if o := vAnc.Outs[in.PreviousOutPoint]; o != nil && !o.Spent {
					p := in.PreviousOutPoint
					op = &p
					break
				}
			}
			if op == nil {
				if w.NoDrop {
					carry = append(carry, tx)
					w.Disp = append(w.Disp, "remine")
					break
				}
				w.Disp = append(w.Disp, "drop")
				break
			}
			o := vAnc.Outs[*op]
			var h [32]byte
			toW := false
			if hh, ok := w.walletHash(); ok && w.R.Chance(40) {
				h, toW = hh, true
			} else {
				h = w.stranger()
			}
			_ = toW
			val := o.Value - o.Value/50
			if val <= 0 {
				val = o.Value
			}
			ds := Spend([]wire.OutPoint{*op}, nil, []*wire.TxOut{wire.NewTxOut(val, P2WSH(h))}, w.nextSalt())
			carry = append(carry, ds)
			w.Disp = append(w.Disp, "doublespend")
		}
	}
	parent := anc
	var nb *Block
	for i := 0; i < length; i++ {
		var c []*wire.MsgTx
		if i == 0 || w.R.Bool() {
			c, carry = carry, nil
		}
		nb, err = w.BuildBlock(parent, c, nRandom)
		if err != nil {
			return nil, false, err
		}
		parent = nb
	}
	d, a, err := w.N.Reorganize(nb)
	if err != nil {
		return nil, false, err
	}
	w.Logf("fork depth=%d length=%d (detached %d attached %d, rolled-back wallet txs %d) new tip %s", depth, length, d, a, len(rolled), w.blockDesc(nb))
	return nb, relevantDisconnected, nil
}

// CheckLedger compares every wallet's observation with the reference ledger of the current best
// chain. Returns the differences per wallet id.
func (w *World) CheckLedger(opts CompareOpts) map[string][]string {
	diffs := map[string][]string{}
	chain := w.N.BestChain()
	v, err := ViewOfChain(chain)
	if err != nil {
		diffs["harness"] = []string{err.Error()}
		return diffs
	}
	var ids []string
	for _, k := range w.Keys {
		ids = append(ids, k.ID)
	}
	o := w.W.Observe(ids)
	if o.Err != "" {
		diffs["observe"] = []string{o.Err}
		return diffs
	}
	tip := chain[len(chain)-1].Height
	if o.SyncedTo != tip {
		diffs["synced"] = []string{fmt.Sprintf("SyncedTo=%d but the node's best chain tip is %d (every announced tip was processed)", o.SyncedTo, tip)}
	}
	for _, k := range w.Keys {
		e := v.Expect(k.Owned)
		if d := e.Compare(o.W[k.ID], opts); len(d) > 0 {
			diffs[k.ID] = d
		}
	}
	return diffs
}

// Settle waits for the handler to process everything delivered.
func (w *World) Settle() bool { return w.W.Quiesce(60 * time.Second) }
