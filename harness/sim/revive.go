package sim

import (
	"bytes"
	"sort"
)

// Revive makes an ABANDONED branch the best chain again: it picks a block that was once on the best
// chain (or on a competing branch) and is not any more, extends it until it is higher than the
// current tip and reorganises to it. Blocks the wallet has already seen connected and disconnected are
// connected a second time - the fork race of two miners, which Fork (always new blocks) never
// produces. Returns the new tip (nil if there is no abandoned branch) and the number of previously
// disconnected blocks that were attached again.
func (w *World) Revive(nRandom int) (*Block, int, error) {
	best := w.N.BestChain()
	onBest := map[*Block]bool{}
	for _, b := range best {
		onBest[b] = true
	}
	hasChild := map[*Block]bool{}
	all := w.N.AllBlocks()
	for _, b := range all {
		if b.Parent != nil {
			hasChild[b.Parent] = true
		}
	}
	var tips []*Block
	for _, b := range all {
		if !onBest[b] && !hasChild[b] && w.N.WasBest(b.Hash) {
			tips = append(tips, b)
		}
	}
	if len(tips) == 0 {
		return nil, 0, nil
	}
	sort.Slice(tips, func(i, j int) bool { return bytes.Compare(tips[i].Hash[:], tips[j].Hash[:]) < 0 })
	tip := tips[w.R.Intn(len(tips))]
	revived := 0
	for b := tip; b != nil && !onBest[b]; b = b.Parent {
		if w.N.WasBest(b.Hash) {
			revived++
		}
	}
	parent := tip
	need := int(w.N.Height()) - int(tip.Height) + 1
	if need < 0 {
		need = 0
	}
	for i := 0; i < need; i++ {
		nb, err := w.BuildBlock(parent, nil, nRandom)
		if err != nil {
			return nil, 0, err
		}
		parent = nb
	}
	d, a, err := w.N.Reorganize(parent)
	if err != nil {
		return nil, 0, err
	}
	w.Logf("revive abandoned branch at %s (+%d new blocks; detached %d attached %d, of which %d were connected before) new tip %s", tip.Hash.String()[:10], need, d, a, revived, w.blockDesc(parent))
	return parent, revived, nil
}
