package sim

import (
	"errors"
	"fmt"
	"github.com/syndtr/goleveldb/leveldb"
	"reflect"
	"runtime"
	"strings"
	"sync"
	"sync/atomic"
	"unsafe"

	mwdb "massnet.org/mass-wallet/masswallet/db"
)

// WDB interposes on the wallet database interface (mwdb.DB): every call of every goroutine
// passes through it. It records events, counts commits, and consults a hook that may inject an
// error (the call is then NOT forwarded), block (schedule gate) or freeze the database (crash
// simulation: from then on commits are dropped and begins refused).

type Event struct {
	Seq    int64
	Kind   string // begin, beginread, commit, rollback, get, put, delete, prefix, iter, names, newbucket, delbucket, clear, bucket
	Tx     int64
	Write  bool
	Role   string // block, import, remove, recvtx, start, api
	Bucket string
	Key    string
	OpIdx  int // index of this operation inside its transaction
}

var ErrInjected = errors.New("verif: injected storage error")
var ErrFrozen = errors.New("verif: database frozen (simulated crash)")

type WDB struct {
	Inner mwdb.DB

	mu      sync.Mutex
	seq     int64
	txSeq   int64
	commits int64 // forwarded, successful commits
	frozen  int32
	passive int32 // race workloads: forward every call without counting, logging or any other shared write
	// Hook is consulted before the call is forwarded. Returning a non-nil error fails the call
	// without forwarding. It may block. It runs without WDB.mu held.
	Hook func(ev *Event) error
	// OnCommitted runs after a forwarded commit returned (k = number of commits so far).
	OnCommitted func(ev *Event, k int64)
	Record      bool
	Log         []Event
	// counters per role of finished write transactions
	done map[string]int64
}

func WrapDB(inner mwdb.DB) *WDB { return &WDB{Inner: inner, done: map[string]int64{}} }

func (d *WDB) Commits() int64 { return atomic.LoadInt64(&d.commits) }

// Seq: number of wallet-database calls so far.
func (d *WDB) Seq() int64 {
	d.mu.Lock()
	defer d.mu.Unlock()
	return d.seq
}

// SetPassive switches the interposer to pure forwarding: its own mutex and counters order the
// database calls of all goroutines and would add happens-before edges the wallet does not have (the
// race detector would see fewer races). Used by workloads that need neither hooks nor counts.
func (d *WDB) SetPassive(on bool) {
	v := int32(0)
	if on {
		v = 1
	}
	atomic.StoreInt32(&d.passive, v)
}
func (d *WDB) isPassive() bool { return atomic.LoadInt32(&d.passive) == 1 }
func (d *WDB) Freeze()         { atomic.StoreInt32(&d.frozen, 1) }
func (d *WDB) Frozen() bool    { return atomic.LoadInt32(&d.frozen) == 1 }

func (d *WDB) SetHook(h func(ev *Event) error) {
	d.mu.Lock()
	d.Hook = h
	d.mu.Unlock()
}

func (d *WDB) SetOnCommitted(h func(ev *Event, k int64)) {
	d.mu.Lock()
	d.OnCommitted = h
	d.mu.Unlock()
}

func (d *WDB) DoneCount(role string) int64 {
	d.mu.Lock()
	defer d.mu.Unlock()
	return d.done[role]
}

func (d *WDB) TakeLog() []Event {
	d.mu.Lock()
	defer d.mu.Unlock()
	l := d.Log
	d.Log = nil
	return l
}

func (d *WDB) event(ev *Event) error {
	if d.isPassive() {
		return nil
	}
	d.mu.Lock()
	d.seq++
	ev.Seq = d.seq
	if d.Record && len(d.Log) < 2000000 {
		d.Log = append(d.Log, *ev)
	}
	h := d.Hook
	d.mu.Unlock()
	if h != nil {
		return h(ev)
	}
	return nil
}

func roleOfCaller() string {
	pcs := make([]uintptr, 40)
	n := runtime.Callers(3, pcs)
	frames := runtime.CallersFrames(pcs[:n])
	for {
		f, more := frames.Next()
		name := f.Function
		switch {
		case strings.HasSuffix(name, ".processConnectedBlock"):
			if roleHas(pcs[:n], "(*NtfnsHandler).Start") {
				return "start"
			}
			return "block"
		case strings.HasSuffix(name, ".asyncImport"):
			return "import"
		case strings.HasSuffix(name, ".asyncRemove"):
			return "remove"
		case strings.HasSuffix(name, ".proccessReceivedTx"):
			return "recvtx"
		case strings.HasSuffix(name, "(*NtfnsHandler).Start"):
			return "start"
		case strings.HasSuffix(name, "masswallet.worker"):
			return "worker"
		case strings.HasSuffix(name, "masswallet.NewWalletManager"):
			return "open"
		}
		if !more {
			break
		}
	}
	return "api"
}

func roleHas(pcs []uintptr, suffix string) bool {
	frames := runtime.CallersFrames(pcs)
	for {
		f, more := frames.Next()
		if strings.HasSuffix(f.Function, suffix) {
			return true
		}
		if !more {
			return false
		}
	}
}

func (d *WDB) Close() error { return d.Inner.Close() }

func (d *WDB) BeginTx() (mwdb.DBTransaction, error) {
	if d.isPassive() {
		return d.Inner.BeginTx()
	}
	role := roleOfCaller()
	id := atomic.AddInt64(&d.txSeq, 1)
	t := &wtx{d: d, id: id, write: true, role: role}
	if err := d.event(&Event{Kind: "begin", Tx: id, Write: true, Role: role}); err != nil {
		return nil, err
	}
	if d.Frozen() {
		return nil, ErrFrozen
	}
	inner, err := d.Inner.BeginTx()
	if err != nil {
		return nil, err
	}
	t.w = inner
	t.r = inner
	return t, nil
}

func (d *WDB) BeginReadTx() (mwdb.ReadTransaction, error) {
	if d.isPassive() {
		return d.Inner.BeginReadTx()
	}
	role := roleOfCaller()
	id := atomic.AddInt64(&d.txSeq, 1)
	t := &wtx{d: d, id: id, role: role}
	if err := d.event(&Event{Kind: "beginread", Tx: id, Role: role}); err != nil {
		return nil, err
	}
	if d.Frozen() {
		return nil, ErrFrozen
	}
	inner, err := d.Inner.BeginReadTx()
	if err != nil {
		return nil, err
	}
	t.r = inner
	return t, nil
}

type wtx struct {
	d     *WDB
	id    int64
	write bool
	role  string
	w     mwdb.DBTransaction
	r     mwdb.ReadTransaction
	ops   int
	ended bool
}

func (t *wtx) ev(kind, bucket string, key []byte) error {
	t.ops++
	return t.d.event(&Event{Kind: kind, Tx: t.id, Write: t.write, Role: t.role, Bucket: bucket, Key: string(key), OpIdx: t.ops})
}

func (t *wtx) finish() {
	if t.write && !t.ended {
		t.ended = true
		t.d.mu.Lock()
		t.d.done[t.role]++
		t.d.mu.Unlock()
	}
}

func (t *wtx) Commit() error {
	e := &Event{Kind: "commit", Tx: t.id, Write: t.write, Role: t.role, OpIdx: t.ops + 1}
	if err := t.d.event(e); err != nil {
		// injected commit failure: nothing is written; release the writer lock
		t.w.Rollback()
		t.finish()
		return err
	}
	if t.d.Frozen() {
		t.w.Rollback()
		t.finish()
		return ErrFrozen
	}
	err := t.w.Commit()
	var k int64
	if err == nil {
		k = atomic.AddInt64(&t.d.commits, 1)
	}
	t.finish()
	if err == nil {
		t.d.mu.Lock()
		oc := t.d.OnCommitted
		t.d.mu.Unlock()
		if oc != nil {
			oc(e, k)
		}
	}
	return err
}

func (t *wtx) Rollback() error {
	t.d.event(&Event{Kind: "rollback", Tx: t.id, Write: t.write, Role: t.role, OpIdx: t.ops + 1})
	err := t.r.Rollback()
	t.finish()
	return err
}

func (t *wtx) TopLevelBucket(name string) mwdb.Bucket {
	if t.ev("bucket", name, nil) != nil {
		return nil
	}
	b := t.r.TopLevelBucket(name)
	if b == nil {
		return nil
	}
	return &wbucket{t: t, b: b, path: name}
}

func (t *wtx) FetchBucket(meta mwdb.BucketMeta) mwdb.Bucket {
	b := t.r.FetchBucket(meta)
	if b == nil {
		return nil
	}
	path := ""
	if meta != nil {
		ps := meta.Paths()
		if len(ps) > 1 {
			path = strings.Join(ps[1:], "/")
		}
	}
	return &wbucket{t: t, b: b, path: path}
}

func (t *wtx) BucketNames() ([]string, error) {
	if err := t.ev("names", "", nil); err != nil {
		return nil, err
	}
	return t.r.BucketNames()
}

func (t *wtx) CreateTopLevelBucket(name string) (mwdb.Bucket, error) {
	if err := t.ev("newbucket", name, nil); err != nil {
		return nil, err
	}
	b, err := t.w.CreateTopLevelBucket(name)
	if err != nil {
		return nil, err
	}
	return &wbucket{t: t, b: b, path: name}, nil
}

func (t *wtx) DeleteTopLevelBucket(name string) error {
	if err := t.ev("delbucket", name, nil); err != nil {
		return err
	}
	return t.w.DeleteTopLevelBucket(name)
}

type wbucket struct {
	t    *wtx
	b    mwdb.Bucket
	path string
}

func (b *wbucket) NewBucket(name string) (mwdb.Bucket, error) {
	if err := b.t.ev("newbucket", b.path+"/"+name, nil); err != nil {
		return nil, err
	}
	nb, err := b.b.NewBucket(name)
	if err != nil {
		return nil, err
	}
	return &wbucket{t: b.t, b: nb, path: b.path + "/" + name}, nil
}

func (b *wbucket) Bucket(name string) mwdb.Bucket {
	if b.t.ev("bucket", b.path+"/"+name, nil) != nil {
		return nil
	}
	nb := b.b.Bucket(name)
	if nb == nil {
		return nil
	}
	return &wbucket{t: b.t, b: nb, path: b.path + "/" + name}
}

func (b *wbucket) BucketNames() ([]string, error) {
	if err := b.t.ev("names", b.path, nil); err != nil {
		return nil, err
	}
	return b.b.BucketNames()
}

func (b *wbucket) DeleteBucket(name string) error {
	if err := b.t.ev("delbucket", b.path+"/"+name, nil); err != nil {
		return err
	}
	return b.b.DeleteBucket(name)
}

func (b *wbucket) Put(key, value []byte) error {
	if err := b.t.ev("put", b.path, key); err != nil {
		return err
	}
	return b.b.Put(key, value)
}

func (b *wbucket) Delete(key []byte) error {
	if err := b.t.ev("delete", b.path, key); err != nil {
		return err
	}
	return b.b.Delete(key)
}

func (b *wbucket) Get(key []byte) ([]byte, error) {
	if err := b.t.ev("get", b.path, key); err != nil {
		return nil, err
	}
	return b.b.Get(key)
}

func (b *wbucket) Clear() error {
	if err := b.t.ev("clear", b.path, nil); err != nil {
		return err
	}
	return b.b.Clear()
}

func (b *wbucket) GetByPrefix(p []byte) ([]*mwdb.Entry, error) {
	if err := b.t.ev("prefix", b.path, p); err != nil {
		return nil, err
	}
	return b.b.GetByPrefix(p)
}

func (b *wbucket) GetBucketMeta() mwdb.BucketMeta { return b.b.GetBucketMeta() }

func (b *wbucket) NewIterator(slice *mwdb.Range) mwdb.Iterator {
	var k []byte
	if slice != nil {
		k = slice.Start
	}
	err := b.t.ev("iter", b.path, k)
	it := b.b.NewIterator(slice)
	if err != nil {
		return &errIter{Iterator: it, err: err}
	}
	return it
}

// errIter: an iterator whose creation "failed": yields nothing and reports the injected error.
type errIter struct {
	mwdb.Iterator
	err error
}

func (e *errIter) Next() bool       { return false }
func (e *errIter) Seek([]byte) bool { return false }
func (e *errIter) Error() error     { return e.err }
func (e *errIter) Key() []byte      { return nil }
func (e *errIter) Value() []byte    { return nil }

// MakeReadOnly puts the LevelDB store under the wallet database into read-only mode (goleveldb
// SetReadOnly): from now on every real batch write fails inside the wallet's own database layer -
// unlike a hook fault, which fails the call before it reaches that layer. The handle is the unexported
// field ldb.LevelDB.ldb.
func (d *WDB) MakeReadOnly() error {
	v := reflect.ValueOf(d.Inner)
	if v.Kind() != reflect.Ptr || v.Elem().Kind() != reflect.Struct {
		return fmt.Errorf("wallet database is a %T", d.Inner)
	}
	f := v.Elem().FieldByName("ldb")
	if !f.IsValid() || f.Kind() != reflect.Ptr {
		return fmt.Errorf("no LevelDB handle in %T", d.Inner)
	}
	h, ok := reflect.NewAt(f.Type(), unsafe.Pointer(f.UnsafeAddr())).Elem().Interface().(*leveldb.DB)
	if !ok || h == nil {
		return fmt.Errorf("unexpected handle type %s", f.Type())
	}
	return h.SetReadOnly()
}
