// Package sim: node simulator, chain generator, reference ledger, storage interposers and wallet
// driver used by the wallet-level checks (DESIGN.md §2).
package sim

import (
	"crypto/sha256"
	"fmt"
	"path/filepath"
	"reflect"
	"sync"
	"sync/atomic"
	"time"
	"unsafe"

	"github.com/massnetorg/mass-core/blockchain"
	"github.com/massnetorg/mass-core/blockchain/state"
	"github.com/massnetorg/mass-core/database"
	"github.com/massnetorg/mass-core/database/ldb"
	"github.com/massnetorg/mass-core/database/storage/ldbstorage"
	"github.com/massnetorg/mass-core/massutil"
	"github.com/massnetorg/mass-core/netsync"
	"github.com/massnetorg/mass-core/trie/rawdb"
	"github.com/massnetorg/mass-core/txscript"
	"github.com/massnetorg/mass-core/wire"
	"massnet.org/mass-wallet/config"
)

// Block is a node of the block tree built by the harness.
type Block struct {
	Msg    *wire.MsgBlock
	Hash   wire.Hash
	Height uint64
	Parent *Block
}

// Node simulates the full node behind the wallet with mass-core's real chain database.
type Node struct {
	Dir  string
	CDB  database.Db // the real ldb.ChainDb
	DB   database.Db // what the wallet sees (CDB or a wrapper around it)
	Wrap *CDB

	mu        sync.Mutex
	Genesis   *Block
	Best      []*Block // best chain, index = height
	All       map[wire.Hash]*Block
	tip       atomic.Value // *blockchain.Blockchain (immutable snapshots)
	listeners map[blockchain.Listener]struct{}
	sm        *netsync.SyncManager
	pool      *blockchain.TxPool
	salt      uint64
	sdb       state.Database
	everBest  map[wire.Hash]bool // blocks that have been on the best chain at some time
}

// WasBest: the block has been connected to the best chain at some time (it may be abandoned now).
func (n *Node) WasBest(h wire.Hash) bool {
	n.mu.Lock()
	defer n.mu.Unlock()
	return n.everBest[h]
}

func setUnexported(field reflect.Value, v interface{}) {
	reflect.NewAt(field.Type(), unsafe.Pointer(field.UnsafeAddr())).Elem().Set(reflect.ValueOf(v))
}

func fabricateChain(height uint64, hash wire.Hash, listeners map[blockchain.Listener]struct{}, db database.Db, hdr *wire.BlockHeader, sdb state.Database) *blockchain.Blockchain {
	bc := &blockchain.Blockchain{}
	tree := blockchain.NewBlockTree()
	h := hash
	node := &blockchain.BlockNode{Height: height, Hash: &h, InMainChain: true}
	if hdr != nil {
		// BestBlockNode().BindingState (GetNewBinding / GetPoolPkCoinbase behind the API's binding
		// queries) reads the header of the best node
		setUnexported(reflect.ValueOf(node).Elem().FieldByName("blockHeader"), hdr)
	}
	setUnexported(reflect.ValueOf(tree).Elem().FieldByName("bestNode"), node)
	v := reflect.ValueOf(bc).Elem()
	setUnexported(v.FieldByName("blockTree"), tree)
	setUnexported(v.FieldByName("listeners"), listeners)
	if db != nil {
		// GetTransactionInDB / GetHeaderByHash of the API handlers read the chain database
		f := v.FieldByName("db")
		reflect.NewAt(f.Type(), unsafe.Pointer(f.UnsafeAddr())).Elem().Set(reflect.ValueOf(&db).Elem())
	}
	if sdb != nil {
		// binding-state database of the node (empty trie store): the API's binding queries open tries on it
		f := v.FieldByName("stateBindingDb")
		reflect.NewAt(f.Type(), unsafe.Pointer(f.UnsafeAddr())).Elem().Set(reflect.ValueOf(&sdb).Elem())
	}
	return bc
}

func fabricateSyncManager() *netsync.SyncManager {
	sm := &netsync.SyncManager{}
	f := reflect.ValueOf(sm).Elem().FieldByName("peers")
	ps := reflect.New(f.Type().Elem())
	setUnexported(f, ps.Interface())
	return sm
}

// NewNode creates a chain database in dir holding only the genesis block.
func NewNode(dir string) (*Node, error) {
	stor, err := ldbstorage.CreateDB(filepath.Join(dir, "chain.db"))
	if err != nil {
		return nil, err
	}
	cdb, err := ldb.NewChainDb(filepath.Join(dir, "blocks"), stor)
	if err != nil {
		return nil, err
	}
	g := massutil.NewBlock(config.ChainParams.GenesisBlock)
	if err := cdb.InitByGenesisBlock(g); err != nil {
		return nil, err
	}
	wrapped := WrapChainDB(cdb)
	n := &Node{Dir: dir, CDB: cdb, DB: wrapped, Wrap: wrapped, All: map[wire.Hash]*Block{}, listeners: map[blockchain.Listener]struct{}{},
		sm: fabricateSyncManager(), pool: blockchain.NewTxPool(nil, nil, nil), sdb: state.NewDatabase(rawdb.NewMemoryDatabase())}
	gb := &Block{Msg: config.ChainParams.GenesisBlock, Hash: config.ChainParams.GenesisBlock.BlockHash(), Height: 0}
	n.Genesis = gb
	n.Best = []*Block{gb}
	n.All[gb.Hash] = gb
	n.publishTip()
	return n, nil
}

func (n *Node) Close() { n.CDB.Close() }

// masswallet.Server / api.MassNode
func (n *Node) Blockchain() *blockchain.Blockchain { return n.tip.Load().(*blockchain.Blockchain) }
func (n *Node) ChainDB() database.Db               { return n.DB }
func (n *Node) TxMemPool() *blockchain.TxPool      { return n.pool }
func (n *Node) SyncManager() *netsync.SyncManager  { return n.sm }

func (n *Node) publishTip() {
	t := n.Best[len(n.Best)-1]
	hdr := t.Msg.Header
	n.tip.Store(fabricateChain(t.Height, t.Hash, n.listeners, n.DB, &hdr, n.sdb))
}

func (n *Node) Tip() *Block {
	n.mu.Lock()
	defer n.mu.Unlock()
	return n.Best[len(n.Best)-1]
}

func (n *Node) Height() uint64 { return n.Tip().Height }

// Listener returns the wallet's registered listener (after WalletManager.Start).
func (n *Node) Listener() blockchain.Listener {
	bc := n.Blockchain()
	// RegisterListener takes chain.l of whichever snapshot it was called on; the map is shared.
	_ = bc
	for l := range n.listeners {
		return l
	}
	return nil
}

func (n *Node) listenerSnapshot() map[blockchain.Listener]bool {
	m := map[blockchain.Listener]bool{}
	for l := range n.listeners {
		m[l] = true
	}
	return m
}

func (n *Node) dropListenersNotIn(keep map[blockchain.Listener]bool) {
	for l := range n.listeners {
		if !keep[l] {
			delete(n.listeners, l)
		}
	}
}

// NewBlock builds (does not connect) a block on parent with the given transactions; the first
// transaction must be a coinbase.
func (n *Node) NewBlock(parent *Block, txs []*wire.MsgTx) *Block {
	g := config.ChainParams.GenesisBlock
	hdr := g.Header // copy of the template (public key, proof, signature, target stay as in genesis)
	hdr.Height = parent.Height + 1
	hdr.Previous = parent.Hash
	n.salt++
	hdr.Timestamp = g.Header.Timestamp.Add(time.Duration(hdr.Height)*45*time.Second + time.Duration(n.salt%40)*time.Second)
	hs := sha256.New()
	for _, tx := range txs {
		h := tx.TxHash()
		hs.Write(h[:])
	}
	var salt [8]byte
	for i := 0; i < 8; i++ {
		salt[i] = byte(n.salt >> (8 * uint(i)))
	}
	hs.Write(salt[:])
	copy(hdr.TransactionRoot[:], hs.Sum(nil))
	hdr.WitnessRoot = hdr.TransactionRoot
	msg := &wire.MsgBlock{Header: hdr, Proposals: g.Proposals, Transactions: txs}
	b := &Block{Msg: msg, Hash: msg.BlockHash(), Height: hdr.Height, Parent: parent}
	n.mu.Lock()
	n.All[b.Hash] = b
	n.mu.Unlock()
	return b
}

// scriptHashOf returns the std/holder script hash the address index files an output under.
func indexHash(pkScript []byte) ([32]byte, bool) {
	var h [32]byte
	class, pops := txscript.GetScriptInfo(pkScript)
	switch class {
	case txscript.WitnessV0ScriptHashTy, txscript.StakingScriptHashTy, txscript.BindingScriptHashTy:
		_, rsh, err := txscript.GetParsedOpcode(pops, class)
		if err != nil {
			return h, false
		}
		return rsh, true
	}
	return h, false
}

// addrIndexFor mirrors blockchain.AddrIndexer.indexBlockAddrs for the script-hash → tx-location
// index (the only part of the address index the wallet reads).
func (n *Node) addrIndexFor(b *Block) (*database.AddrIndexData, error) {
	blk := massutil.NewBlock(b.Msg)
	locs, err := blk.TxLoc()
	if err != nil {
		return nil, err
	}
	idx := database.TxAddrIndex{}
	seen := map[string]bool{}
	add := func(h [32]byte, loc wire.TxLoc) {
		k := fmt.Sprintf("%x/%d", h, loc.TxStart)
		if seen[k] {
			return
		}
		seen[k] = true
		l := loc
		idx[h] = append(idx[h], &l)
	}
	inBlock := map[wire.Hash]*wire.MsgTx{}
	for i, tx := range b.Msg.Transactions {
		inBlock[tx.TxHash()] = tx
		if !blockchain.IsCoinBaseTx(tx) {
			for _, in := range tx.TxIn {
				var prev *wire.MsgTx
				if p, ok := inBlock[in.PreviousOutPoint.Hash]; ok {
					prev = p
				} else {
					reps, err := n.CDB.FetchTxBySha(&in.PreviousOutPoint.Hash)
					if err != nil || len(reps) == 0 {
						return nil, fmt.Errorf("addr index: input tx %v not found: %v", in.PreviousOutPoint.Hash, err)
					}
					prev = reps[len(reps)-1].Tx
				}
				if int(in.PreviousOutPoint.Index) >= len(prev.TxOut) {
					return nil, fmt.Errorf("addr index: input index out of range")
				}
				if h, ok := indexHash(prev.TxOut[in.PreviousOutPoint.Index].PkScript); ok {
					add(h, locs[i])
				}
			}
		}
		for _, out := range tx.TxOut {
			if h, ok := indexHash(out.PkScript); ok {
				add(h, locs[i])
			}
		}
	}
	return &database.AddrIndexData{TxIndex: idx, BindingTxIndex: database.BindingTxAddrIndex{}, BindingTxSpentIndex: database.BindingTxSpentAddrIndex{}}, nil
}

// attach connects b (whose parent must be the current tip) in the chain database.
func (n *Node) attach(b *Block) error {
	tip := n.Best[len(n.Best)-1]
	if b.Parent != tip {
		return fmt.Errorf("attach: parent %d is not the tip %d", b.Parent.Height, tip.Height)
	}
	if n.everBest == nil {
		n.everBest = map[wire.Hash]bool{}
	}
	n.everBest[b.Hash] = true
	blk := massutil.NewBlock(b.Msg)
	// the address index needs the inputs' previous outputs: compute before the block is submitted
	ai, err := n.addrIndexFor(b)
	if err != nil {
		return err
	}
	if err := n.CDB.SubmitBlock(blk); err != nil {
		n.CDB.Rollback()
		return fmt.Errorf("SubmitBlock(%d): %v", b.Height, err)
	}
	if err := n.CDB.SubmitAddrIndex(&b.Hash, b.Height, ai); err != nil {
		n.CDB.Rollback()
		return fmt.Errorf("SubmitAddrIndex(%d): %v", b.Height, err)
	}
	if err := n.CDB.Commit(b.Hash); err != nil {
		return fmt.Errorf("Commit(%d): %v", b.Height, err)
	}
	n.Best = append(n.Best, b)
	return nil
}

func (n *Node) detach() error {
	tip := n.Best[len(n.Best)-1]
	if tip.Height == 0 {
		return fmt.Errorf("detach genesis")
	}
	if err := n.CDB.DeleteAddrIndex(&tip.Hash, tip.Height); err != nil {
		n.CDB.Rollback()
		return fmt.Errorf("DeleteAddrIndex(%d): %v", tip.Height, err)
	}
	if err := n.CDB.DeleteBlock(&tip.Hash); err != nil {
		n.CDB.Rollback()
		return fmt.Errorf("DeleteBlock(%d): %v", tip.Height, err)
	}
	if err := n.CDB.Commit(tip.Hash); err != nil {
		return fmt.Errorf("Commit(delete %d): %v", tip.Height, err)
	}
	n.Best = n.Best[:len(n.Best)-1]
	return nil
}

// Extend connects b on the best chain and publishes the new tip (no announcement).
func (n *Node) Extend(b *Block) error {
	n.mu.Lock()
	defer n.mu.Unlock()
	if err := n.attach(b); err != nil {
		return err
	}
	n.publishTip()
	return nil
}

// Reorganize makes newTip's branch the best chain: detaches down to the common ancestor and
// attaches the new branch, in the database, then publishes the tip (as blockchain.reorganizeChain
// does: listeners only ever hear about the final tip).
func (n *Node) Reorganize(newTip *Block) (detached, attached int, err error) {
	n.mu.Lock()
	defer n.mu.Unlock()
	var branch []*Block
	b := newTip
	for b != nil && (int(b.Height) >= len(n.Best) || n.Best[b.Height] != b) {
		branch = append([]*Block{b}, branch...)
		b = b.Parent
	}
	if b == nil {
		return 0, 0, fmt.Errorf("no common ancestor")
	}
	for n.Best[len(n.Best)-1] != b {
		if err := n.detach(); err != nil {
			return detached, attached, err
		}
		detached++
	}
	for _, nb := range branch {
		if err := n.attach(nb); err != nil {
			return detached, attached, err
		}
		attached++
	}
	n.publishTip()
	return detached, attached, nil
}

// Announce delivers the block to the wallet's listener exactly as the node does after commit.
func (n *Node) Announce(b *Block) error {
	l := n.Listener()
	if l == nil {
		return fmt.Errorf("no listener registered")
	}
	return l.OnBlockConnected(b.Msg)
}

// AnnounceTx delivers an unconfirmed transaction.
func (n *Node) AnnounceTx(tx *wire.MsgTx) error {
	l := n.Listener()
	if l == nil {
		return fmt.Errorf("no listener registered")
	}
	return l.OnTransactionReceived(tx)
}

// AllBlocks returns every block ever built (all branches).
func (n *Node) AllBlocks() []*Block {
	n.mu.Lock()
	defer n.mu.Unlock()
	var out []*Block
	for _, b := range n.All {
		out = append(out, b)
	}
	return out
}

// BestChain returns a copy of the best chain.
func (n *Node) BestChain() []*Block {
	n.mu.Lock()
	defer n.mu.Unlock()
	return append([]*Block{}, n.Best...)
}
