#!/usr/bin/env python3
"""Independent BIP-32 reference in pure python (own secp256k1 arithmetic, no btcec).
usage: bip32_ref.py <seed:int> <count> -> JSON lines {seed, path, priv, cc, pub, depth, fp, childnum}
Anchored on BIP-32 test vector 1 master (seed 000102..0f)."""
import sys, json, hmac, hashlib, random

P = 2**256 - 2**32 - 977
N = 0xFFFFFFFFFFFFFFFFFFFFFFFFFFFFFFFEBAAEDCE6AF48A03BBFD25E8CD0364141
G = (0x79BE667EF9DCBBAC55A06295CE870B07029BFCDB2DCE28D959F2815B16F81798,
     0x483ADA7726A3C4655DA4FBFC0E1108A8FD17B448A68554199C47D08FFB10D4B8)

def jdbl(p):
    x, y, z = p
    if y == 0: return (0, 1, 0)
    s = 4 * x * y * y % P
    m = 3 * x * x % P
    nx = (m * m - 2 * s) % P
    ny = (m * (s - nx) - 8 * y ** 4) % P
    nz = 2 * y * z % P
    return (nx, ny, nz)

def jadd(p, q):
    if p[2] == 0: return q
    if q[2] == 0: return p
    x1, y1, z1 = p; x2, y2, z2 = q
    u1 = x1 * z2 * z2 % P; u2 = x2 * z1 * z1 % P
    s1 = y1 * z2 ** 3 % P; s2 = y2 * z1 ** 3 % P
    if u1 == u2:
        if s1 != s2: return (0, 1, 0)
        return jdbl(p)
    h = (u2 - u1) % P; r = (s2 - s1) % P
    h2 = h * h % P; h3 = h * h2 % P; u1h2 = u1 * h2 % P
    nx = (r * r - h3 - 2 * u1h2) % P
    ny = (r * (u1h2 - nx) - s1 * h3) % P
    nz = h * z1 * z2 % P
    return (nx, ny, nz)

def mul(k, pt=G):
    acc = (0, 1, 0); add = (pt[0], pt[1], 1)
    while k:
        if k & 1: acc = jadd(acc, add)
        add = jdbl(add); k >>= 1
    zi = pow(acc[2], P - 2, P)
    return (acc[0] * zi * zi % P, acc[1] * zi ** 3 % P)

def serp(pt):
    return bytes([2 + (pt[1] & 1)]) + pt[0].to_bytes(32, 'big')

def h160(b):
    return hashlib.new('ripemd160', hashlib.sha256(b).digest()).digest()

def master(seed):
    I = hmac.new(b'Bitcoin seed', seed, hashlib.sha512).digest()
    k = int.from_bytes(I[:32], 'big')
    if k == 0 or k >= N: return None
    return (k, I[32:], 0, b'\0\0\0\0', 0)

def ckd(node, i):
    k, c, depth, fp, cn = node
    pub = serp(mul(k))
    if i >= 0x80000000:
        data = b'\0' + k.to_bytes(32, 'big') + i.to_bytes(4, 'big')
    else:
        data = pub + i.to_bytes(4, 'big')
    I = hmac.new(c, data, hashlib.sha512).digest()
    il = int.from_bytes(I[:32], 'big')
    if il >= N: return None
    ck = (il + k) % N
    if ck == 0: return None
    return (ck, I[32:], depth + 1, h160(pub)[:4], i)

def main():
    try:
        hashlib.new('ripemd160')
    except Exception:
        print(json.dumps({"error": "no ripemd160"})); return
    m = master(bytes(range(16)))
    assert m[0] == 0xe8f32e723decf4051aefac8e2c93c9c5b214313817cdb01a1494b917c8436b35
    assert m[1].hex() == '873dff81c02f525623fd1fe5167eac3a55a049de3d314bb42ee227ffed37d508'
    assert serp(mul(m[0])).hex() == '0339a36013301597daef41fbe593a02cc513d0b55527ec2df1050e2e8ff49c85c2'
    rnd = random.Random(int(sys.argv[1])); n = int(sys.argv[2])
    special = [0, 1, 2**31 - 1, 2**31, 2**31 + 1, 2**32 - 1, 44 + 2**31, 297 + 2**31]
    for _ in range(n):
        seed = bytes(rnd.getrandbits(8) for _ in range(rnd.choice([16, 20, 32, 33, 64])))
        node = master(seed)
        if node is None: continue
        path = []
        for d in range(rnd.randrange(1, 7)):
            i = rnd.choice(special) if rnd.random() < 0.5 else rnd.getrandbits(32)
            nn = ckd(node, i)
            if nn is None: break
            node = nn; path.append(i)
        k, c, depth, fp, cn = node
        print(json.dumps({"seed": seed.hex(), "path": path, "priv": k.to_bytes(32, 'big').hex(), "cc": c.hex(),
                          "pub": serp(mul(k)).hex(), "depth": depth, "fp": fp.hex(), "childnum": cn}))
main()
