#!/bin/bash
cd /verif
for pair in "$@"; do
  set -- $pair
  sid=$1; shift
  echo "=== $sid vs $*"; tools/try_seeded.sh $sid "$@" 2>&1 | cut -c1-300
done
echo ALLDONE
