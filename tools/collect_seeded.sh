#!/bin/bash
# tools/collect_seeded.sh <seeded-id> <agent-worktree> <go-test-package> <run-regex> [<extra packages whose existing tests must still pass>...]
# Collects a sub-agent's seeded change (uncommitted diff + untracked demonstration files + SEEDED.md) into
# /verif/seeded/<seeded-id>/ and confirms it independently in a fresh scratch worktree of /repo:
#  (1) demonstration passes on the unchanged code, (2) patch applies and the repository builds,
#  (3) demonstration fails with the patch, (4) existing tests of the touched packages still pass
#  (api: TestPrepareCreateTx is skipped - it fails on the unchanged tree).
set -u
export GOFLAGS=-mod=mod GOPROXY=off GOSUMDB=off GOTOOLCHAIN=local
SID="$1"; WT="$2"; PKG="$3"; RUN="$4"; shift 4
D=/verif/seeded/$SID; mkdir -p "$D/demo"
git -C "$WT" diff > "$D/patch.diff"
[ -s "$D/patch.diff" ] || { echo "empty diff in $WT"; exit 2; }
( cd "$WT" && git ls-files --others --exclude-standard | grep -v '^SEEDED.md$' ) > "$D/demo/FILES"
while read -r f; do mkdir -p "$D/demo/$(dirname "$f")"; cp "$WT/$f" "$D/demo/$f"; done < "$D/demo/FILES"
[ -f "$WT/SEEDED.md" ] && cp "$WT/SEEDED.md" "$D/demonstration.md"
V=/tmp/vf-$SID-$$
git -C /repo worktree add --detach "$V" HEAD >/dev/null 2>&1 || exit 2
trap 'git -C /repo worktree remove --force "$V" >/dev/null 2>&1' EXIT
while read -r f; do mkdir -p "$V/$(dirname "$f")"; cp "$D/demo/$f" "$V/$f"; done < "$D/demo/FILES"
cd "$V"
echo "== (1) demonstration on the unchanged code"
go test ${TAGS:+-tags $TAGS} ${RACE:+-race} -vet=off -count=1 -run "$RUN" $PKG 2>&1 | tail -3; r1=${PIPESTATUS[0]}
echo "== (2) apply + build"
git apply "$D/patch.diff" && go build ./... 2>&1 | grep -v 'ld: ' | tail -3; r2=$?
echo "== (3) demonstration with the change"
go test ${TAGS:+-tags $TAGS} ${RACE:+-race} -vet=off -count=1 -run "$RUN" $PKG 2>&1 | grep -v 'ld: ' | tail -6; r3=${PIPESTATUS[0]}
echo "== (4) existing tests of touched packages (demo files removed)"
while read -r f; do rm -f "$V/$f"; done < "$D/demo/FILES"
PKGS=$(git diff --name-only | xargs -n1 dirname | sort -u | sed 's#^#./#')
r4=0
for p in $PKGS "$@"; do
  if [ "$p" = "./api" ]; then go test -vet=off -count=1 -skip 'TestPrepareCreateTx' "$p" 2>&1 | grep -v 'ld: ' | tail -1; x=${PIPESTATUS[0]}
  else go test -vet=off -count=1 "$p" 2>&1 | grep -v 'ld: ' | tail -1; x=${PIPESTATUS[0]}; fi
  [ $x -ne 0 ] && r4=1
done
echo "SUMMARY $SID demo_on_original_rc=$r1 (want 0) build_rc=$r2 (want 0) demo_with_change_rc=$r3 (want !=0) existing_tests_rc=$r4 (want 0)"
