#!/bin/bash
# tools/try_seeded.sh <seeded-id> <check-id> [<check-id>...]
# Applies /verif/seeded/<seeded-id>/patch.diff to a scratch worktree of /repo (current HEAD, or the
# base commit recorded in meta.json if it no longer applies), runs the given checks (quick tier)
# against that copy, prints their RESULT / VIOLATION lines, removes the worktree. /repo itself,
# /verif/evidence and /verif/replays are not touched (VERIF_REPO / VERIF_OUT).
set -u
SID="$1"; shift
V=/verif
P="$V/seeded/$SID/patch.diff"
[ -f "$P" ] || { echo "no $P"; exit 2; }
WT="/tmp/seeded-try-$SID-$$"
OUT="$V/work/seeded-out/$SID"
rm -rf "$OUT"; mkdir -p "$OUT"
git -C /repo worktree add --detach "$WT" HEAD >/dev/null 2>&1 || exit 2
cleanup() { git -C /repo worktree remove --force "$WT" >/dev/null 2>&1; }
trap cleanup EXIT
if ! git -C "$WT" apply "$P" 2>/dev/null; then
  BASE=$(python3 -c "import json;print(json.load(open('$V/seeded/$SID/meta.json')).get('base_commit',''))" 2>/dev/null)
  if [ -n "$BASE" ]; then
    git -C "$WT" checkout -q --detach "$BASE" && git -C "$WT" apply "$P" || { echo "patch does not apply to HEAD nor to $BASE"; exit 2; }
    echo "(patch applied to its base commit $BASE, not to HEAD)"
  else
    echo "patch does not apply"; exit 2
  fi
fi
rc=0
for C in "$@"; do
  TIER=quick
  case "$C" in *:thorough) TIER=thorough; C="${C%%:*}";; esac
  VERIF_REPO="$WT" VERIF_OUT="$OUT" "$V/bin/check" "$C" "$TIER" 2>&1 | grep -a -E "^(RESULT|KNOWN-FINDING|HARNESS-FAULT|  distinct-signature)" | cut -c1-400
done
