#!/usr/bin/env python3
# prints the markdown table of /verif/seeded/*/meta.json (used for DESIGN.md section 10)
import json,glob,os
rows=[]
for f in sorted(glob.glob('/verif/seeded/*/meta.json')):
    m=json.load(open(f))
    caught='; '.join('%s (%s)'%(k,v) for k,v in m.get('caught_by',{}).items()) or '—'
    missed='; '.join(m.get('missed_by',[])) or '—'
    rows.append('| %s | %s | %s | %s | %s | %s |'%(m['id'],m['property'],m['change'].replace('|','\\|'),m['needs'].replace('|','\\|'),caught.replace('|','\\|'),missed.replace('|','\\|')))
print('| seeded change | aimed at | what was changed | what it needs to show | caught by (signature) | missed by |')
print('|---|---|---|---|---|---|')
print('\n'.join(rows))
