#!/usr/bin/env python3
"""Independent BIP-39 reference (second reference besides the Go bit-level one).
usage: bip39_ref.py <wordlist> <seed> <count>  -> JSON lines {entropy, passphrase(hex), sentence, seed}
Own 11-bit splitter on a python int built from bits; PBKDF2 from hashlib."""
import sys, json, hashlib, random

def encode(words, ent: bytes) -> str:
    cs_bits = len(ent) // 4
    h = hashlib.sha256(ent).digest()
    bits = ''.join(f'{b:08b}' for b in ent) + ''.join(f'{b:08b}' for b in h)[:cs_bits]
    assert len(bits) % 11 == 0
    return ' '.join(words[int(bits[i:i+11], 2)] for i in range(0, len(bits), 11))

def seed(sentence: str, passphrase: bytes) -> bytes:
    return hashlib.pbkdf2_hmac('sha512', sentence.encode(), b'mnemonic' + passphrase, 2048, 64)

def main():
    words = open(sys.argv[1]).read().split()
    assert len(words) == 2048
    assert hashlib.sha256(("\n".join(words) + "\n").encode()).hexdigest() == \
        '2f5eed53a4727b4bf8880d8f3f199efc90e58503646d9ff8eff3a2ed3b24dbda'
    rnd = random.Random(int(sys.argv[2]))
    n = int(sys.argv[3])
    # anchor: the published all-zero vector with passphrase TREZOR
    z = encode(words, bytes(16))
    assert z == 'abandon ' * 11 + 'about', z
    assert seed(z, b'TREZOR').hex().startswith('c55257c360c07c72029aebc1b53c05ed0362ada38ead3e3e9efa3708e5349553'), seed(z, b'TREZOR').hex()
    out = []
    for i in range(n):
        size = [16, 20, 24, 28, 32][i % 5]
        kind = i % 7
        if kind == 0:
            ent = bytes(rnd.randrange(0, 9)) ; ent = ent + bytes(rnd.getrandbits(8) for _ in range(size - len(ent)))
        elif kind == 1:
            ent = bytes([0xff]) * size
        elif kind == 2:
            ent = bytes(size)
        elif kind == 3:
            b = bytearray(size); b[rnd.randrange(size)] = 1 << rnd.randrange(8); ent = bytes(b)
        else:
            ent = bytes(rnd.getrandbits(8) for _ in range(size))
        ent = ent[:size]
        pw = [b'', b'TREZOR', 'pässwörd'.encode(), bytes(rnd.getrandbits(8) % 94 + 33 for _ in range(rnd.randrange(1, 30)))][i % 4]
        s = encode(words, ent)
        out.append({"entropy": ent.hex(), "passphrase": pw.hex(), "sentence": s, "seed": seed(s, pw).hex()})
    for o in out:
        print(json.dumps(o))

main()
