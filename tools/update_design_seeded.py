#!/usr/bin/env python3
import subprocess
s=open('/verif/DESIGN.md').read()
a=s.index('<!-- SEEDED-TABLE-BEGIN -->')+len('<!-- SEEDED-TABLE-BEGIN -->')
b=s.index('<!-- SEEDED-TABLE-END -->')
t=subprocess.run(['python3','/verif/tools/seeded_table.py'],capture_output=True,text=True).stdout
open('/verif/DESIGN.md','w').write(s[:a]+'\n'+t+s[b:])
