#!/bin/bash
# tools/sweep.sh <tier> <seed>... : runs every check of the given tier at every given VERIF_SEED from
# the directory this script lives in (so it also works inside a `vp run` snapshot) and prints one
# line per run: seed, id, exit code, seconds, RESULT line. Any VIOLATION / HARNESS-FAULT lines follow.
V="$(cd "$(dirname "$0")/.." && pwd)"
TIER="$1"; shift
IDS="${SWEEP_IDS:-C01 C02 C03 C04 C05 C06 C07 C08 C09 C10 C11 C12 C13 C14 C15 C16 C17 C18 C19 C20}"
for S in "$@"; do
  for ID in $IDS; do
    t0=$(date +%s)
    out=$(VERIF_SEED=$S "$V/bin/check" "$ID" "$TIER" 2>&1); rc=$?
    t1=$(date +%s)
    echo "seed=$S $ID rc=$rc $((t1-t0))s $(echo "$out" | grep -E '^RESULT' | tail -1 | cut -c1-200)"
    echo "$out" | grep -E '^(VIOLATION|HARNESS-FAULT|INCONCLUSIVE)' | cut -c1-300 | head -10
  done
done
