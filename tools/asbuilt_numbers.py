#!/usr/bin/env python3
# Rewrites the block between <!-- ASBUILT-NUMBERS-BEGIN/END --> in DESIGN.md from /verif/evidence/*.json
import json,glob,os
rows=[]
for f in sorted(glob.glob('/verif/evidence/C??.json')):
    e=json.load(open(f)); c=e.get('coverage',{})
    rows.append("| %s | %s | %s | %s/%s | %s | %s | %s | %s | %.0f s |"%(e['property_id'],e.get('tier'),e.get('seed'),c.get('cases_executed'),c.get('cases_planned'),c.get('evaluations',c.get('inputs_evaluated','')),c.get('distinct_nontrivial',''),e.get('violations'),c.get('inconclusive',c.get('cases_inconclusive','')),e.get('wall_s',0)))
blk="\n| id | tier | seed | cases | evaluations | distinct non-trivial | violations | inconclusive | wall |\n|---|---|---|---|---|---|---|---|---|\n"+"\n".join(rows)+"\n"
s=open('/verif/DESIGN.md').read()
a='<!-- ASBUILT-NUMBERS-BEGIN -->'; b='<!-- ASBUILT-NUMBERS-END -->'
if a not in s:
    anchor="| id | quick tier (wall on 16 cores) | thorough tier | deviations from the plan below |"
    i=s.index(anchor)
    s=s[:i]+"Numbers of the evidence files as committed (written by `tools/asbuilt_numbers.py`; the prose table below may lag by a few per cent):\n\n"+a+"\n"+b+"\n\n"+s[i:]
i=s.index(a)+len(a); j=s.index(b)
s=s[:i]+blk+s[j:]
open('/verif/DESIGN.md','w').write(s)
